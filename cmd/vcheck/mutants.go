package main

import "fmt"

func cmdMutants(args []string) int {
	fmt.Println("not implemented yet")
	return 0
}
