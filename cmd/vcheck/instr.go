package main

import (
	"fmt"
	"go/ast"
	"go/parser"
	"go/token"
	"os"
	"path/filepath"
	"sort"
	"strings"
)

// Source instrumenter for the C20 interleaving exploration.
//
// Every non-test Go file of the library packages in the repository's CURRENT
// working tree is copied with scheduling points inserted (text insertion at
// positions computed from the AST, so the rest of the file is byte-identical):
//
//   - vsched.Point(site)   at every function entry and at the head of every loop body;
//   - vsched.Access(site, "pkg.var", write) before, and vsched.After(site) after, every statement
//     whose own header mentions a package-level variable of the module.
//
// The copies are written under dir and returned as overlay replacements.

const vschedImport = "github.com/jawher/mow.cli/internal/zverif/vsched"

type instrStats struct {
	Files, Sites, Tagged int
	Vars                 []string
}

type insertion struct {
	off  int
	text string
	ord  int
}

func instrumentRepo(repo, dir string) (map[string]string, *instrStats, error) {
	st := &instrStats{}
	var pkgDirs []string
	filepath.Walk(repo, func(p string, info os.FileInfo, err error) error {
		if err != nil || !info.IsDir() {
			return nil
		}
		rel, _ := filepath.Rel(repo, p)
		if strings.HasPrefix(rel, ".git") || strings.Contains(rel, "zverif") || strings.Contains(rel, "testdata") {
			return filepath.SkipDir
		}
		pkgDirs = append(pkgDirs, p)
		return nil
	})
	fset := token.NewFileSet()
	type fileInfo struct {
		path string
		src  []byte
		f    *ast.File
		pkg  string // import path suffix, "" for the root package
	}
	var files []*fileInfo
	// package-level variables per package (by package NAME, as used in selector expressions)
	pkgVars := map[string]map[string]bool{}
	for _, d := range pkgDirs {
		ents, _ := os.ReadDir(d)
		for _, e := range ents {
			n := e.Name()
			if e.IsDir() || !strings.HasSuffix(n, ".go") || strings.HasSuffix(n, "_test.go") || n == "zz_verif.go" {
				continue
			}
			p := filepath.Join(d, n)
			src, err := os.ReadFile(p)
			if err != nil {
				return nil, nil, err
			}
			f, err := parser.ParseFile(fset, p, src, parser.ParseComments)
			if err != nil {
				return nil, nil, fmt.Errorf("instrumenter: %v", err)
			}
			rel, _ := filepath.Rel(repo, d)
			files = append(files, &fileInfo{path: p, src: src, f: f, pkg: rel})
			pn := f.Name.Name
			if pkgVars[pn] == nil {
				pkgVars[pn] = map[string]bool{}
			}
			for _, decl := range f.Decls {
				gd, ok := decl.(*ast.GenDecl)
				if !ok || gd.Tok != token.VAR {
					continue
				}
				for _, sp := range gd.Specs {
					for _, id := range sp.(*ast.ValueSpec).Names {
						if id.Name != "_" {
							pkgVars[pn][id.Name] = true
						}
					}
				}
			}
		}
	}
	for pn, vs := range pkgVars {
		for v := range vs {
			st.Vars = append(st.Vars, pn+"."+v)
		}
	}
	sort.Strings(st.Vars)
	repl := map[string]string{}
	site := 0
	for _, fi := range files {
		var ins []insertion
		add := func(pos token.Pos, text string) {
			ins = append(ins, insertion{off: fset.Position(pos).Offset, text: text, ord: len(ins)})
		}
		own := pkgVars[fi.f.Name.Name]
		imports := map[string]bool{} // local names of imported module packages
		for _, im := range fi.f.Imports {
			p := strings.Trim(im.Path.Value, `"`)
			if strings.HasPrefix(p, "github.com/jawher/mow.cli") {
				name := filepath.Base(p)
				if im.Name != nil {
					name = im.Name.Name
				}
				imports[name] = true
			}
		}
		// mentions of package-level variables in the header of a statement (nested blocks excluded)
		mentions := func(s ast.Stmt) (name string, write bool) {
			var scan func(n ast.Node, lhs bool)
			found := func(nm string, w bool) {
				if name == "" || w {
					name = nm
				}
				if w {
					write = true
				}
			}
			scan = func(n ast.Node, lhs bool) {
				ast.Inspect(n, func(x ast.Node) bool {
					switch v := x.(type) {
					case *ast.BlockStmt, *ast.FuncLit:
						return false
					case *ast.SelectorExpr:
						if id, ok := v.X.(*ast.Ident); ok && imports[id.Name] && id.Obj == nil {
							if pkgVars[id.Name][v.Sel.Name] {
								found(id.Name+"."+v.Sel.Name, lhs)
							}
							return false
						}
					case *ast.Ident:
						if own[v.Name] && (v.Obj == nil || isPkgLevel(fi.f, v.Obj)) {
							found(fi.f.Name.Name+"."+v.Name, lhs)
						}
					}
					return true
				})
			}
			switch v := s.(type) {
			case *ast.AssignStmt:
				for _, l := range v.Lhs {
					scan(l, true)
				}
				for _, r := range v.Rhs {
					scan(r, false)
				}
			case *ast.IncDecStmt:
				scan(v.X, true)
			case *ast.IfStmt:
				if v.Init != nil {
					n2, w2 := "", false
					n2, w2 = mentionsOf(v.Init, scan)
					_ = n2
					_ = w2
				}
				scan(v.Cond, false)
			case *ast.ForStmt:
				if v.Cond != nil {
					scan(v.Cond, false)
				}
			case *ast.RangeStmt:
				scan(v.X, false)
			case *ast.SwitchStmt:
				if v.Tag != nil {
					scan(v.Tag, false)
				}
			case *ast.BlockStmt, *ast.LabeledStmt, *ast.TypeSwitchStmt, *ast.SelectStmt, *ast.CaseClause, *ast.CommClause:
			default:
				scan(s, false)
			}
			return
		}
		var visitList func(list []ast.Stmt)
		var visitStmt func(s ast.Stmt)
		visitList = func(list []ast.Stmt) {
			for _, s := range list {
				if nm, w := mentions(s); nm != "" {
					site++
					st.Tagged++
					add(s.Pos(), fmt.Sprintf("vsched.Access(%d, %q, %v); ", site, nm, w))
					switch s.(type) {
					case *ast.ReturnStmt, *ast.BranchStmt, *ast.LabeledStmt:
					default:
						add(s.End(), fmt.Sprintf("; vsched.After(%d)", site))
					}
				}
				visitStmt(s)
			}
		}
		body := func(b *ast.BlockStmt, point bool) {
			if b == nil {
				return
			}
			if point {
				site++
				add(b.Lbrace+1, fmt.Sprintf(" vsched.Point(%d); ", site))
			}
			visitList(b.List)
		}
		visitStmt = func(s ast.Stmt) {
			switch v := s.(type) {
			case *ast.BlockStmt:
				body(v, false)
			case *ast.IfStmt:
				body(v.Body, false)
				if v.Else != nil {
					visitStmt(v.Else)
				}
			case *ast.ForStmt:
				body(v.Body, true)
			case *ast.RangeStmt:
				body(v.Body, true)
			case *ast.SwitchStmt:
				body(v.Body, false)
			case *ast.TypeSwitchStmt:
				body(v.Body, false)
			case *ast.SelectStmt:
				body(v.Body, false)
			case *ast.CaseClause:
				visitList(v.Body)
			case *ast.CommClause:
				visitList(v.Body)
			case *ast.LabeledStmt:
				visitStmt(v.Stmt)
			}
			// function literals inside the statement
			ast.Inspect(s, func(x ast.Node) bool {
				if _, isBlock := x.(*ast.BlockStmt); isBlock && x != ast.Node(s) {
					return false
				}
				if fl, ok := x.(*ast.FuncLit); ok {
					body(fl.Body, true)
					return false
				}
				return true
			})
		}
		for _, decl := range fi.f.Decls {
			switch d := decl.(type) {
			case *ast.FuncDecl:
				body(d.Body, true)
			case *ast.GenDecl:
				// function literals in package-level initialisers (e.g. var exiter = func(..){..})
				ast.Inspect(d, func(x ast.Node) bool {
					if fl, ok := x.(*ast.FuncLit); ok {
						body(fl.Body, true)
						return false
					}
					return true
				})
			}
		}
		if len(ins) == 0 {
			continue
		}
		st.Files++
		// the import goes right after the package clause
		ins = append(ins, insertion{off: fset.Position(fi.f.Name.End()).Offset, text: "\n\nimport vsched \"" + vschedImport + "\"\n", ord: -1})
		sort.SliceStable(ins, func(i, j int) bool {
			if ins[i].off != ins[j].off {
				return ins[i].off < ins[j].off
			}
			return ins[i].ord < ins[j].ord
		})
		var sb strings.Builder
		last := 0
		for _, in := range ins {
			sb.Write(fi.src[last:in.off])
			sb.WriteString(in.text)
			last = in.off
		}
		sb.Write(fi.src[last:])
		rel, _ := filepath.Rel(repo, fi.path)
		out := filepath.Join(dir, rel)
		os.MkdirAll(filepath.Dir(out), 0755)
		if err := os.WriteFile(out, []byte(sb.String()), 0644); err != nil {
			return nil, nil, err
		}
		repl[fi.path] = out
	}
	st.Sites = site
	return repl, st, nil
}

func mentionsOf(s ast.Stmt, scan func(n ast.Node, lhs bool)) (string, bool) {
	if a, ok := s.(*ast.AssignStmt); ok {
		for _, r := range a.Rhs {
			scan(r, false)
		}
	} else {
		scan(s, false)
	}
	return "", false
}

// isPkgLevel: the object was declared by a package-level var declaration of this file.
func isPkgLevel(f *ast.File, o *ast.Object) bool {
	vs, ok := o.Decl.(*ast.ValueSpec)
	if !ok || o.Kind != ast.Var {
		return false
	}
	for _, decl := range f.Decls {
		if gd, ok := decl.(*ast.GenDecl); ok && gd.Tok == token.VAR {
			for _, sp := range gd.Specs {
				if sp == ast.Spec(vs) {
					return true
				}
			}
		}
	}
	return false
}
