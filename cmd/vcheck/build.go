package main

import (
	"bytes"
	"encoding/json"
	"fmt"
	"os"
	"os/exec"
	"path/filepath"
	"strings"
	"time"
)

// overlayFor maps the harness sources into the repository's module:
//
//	<repo>/zz_verif.go                    <- harness/cli/zz_verif.go     (package cli)
//	<repo>/internal/zverif/<pkg>/*.go     <- harness/<pkg>/*.go
//
// extra holds additional replacements (used by C20 for instrumented copies).
func overlayFor(repo string, extra map[string]string) (string, error) {
	repl := map[string]string{}
	repl[filepath.Join(repo, "zz_verif.go")] = filepath.Join(verifDir, "harness/cli/zz_verif.go")
	repl[filepath.Join(repo, "zz_verif_fsm.go")] = filepath.Join(verifDir, "harness/cli/zz_verif_fsm.go")
	for _, pkg := range []string{"worker", "ref", "vsched"} {
		dir := filepath.Join(verifDir, "harness", pkg)
		ents, err := os.ReadDir(dir)
		if err != nil {
			continue
		}
		for _, e := range ents {
			if strings.HasSuffix(e.Name(), ".go") && !strings.HasSuffix(e.Name(), "_test.go") {
				repl[filepath.Join(repo, "internal/zverif", pkg, e.Name())] = filepath.Join(dir, e.Name())
			}
		}
	}
	for k, v := range extra {
		repl[k] = v
	}
	b, _ := json.MarshalIndent(map[string]interface{}{"Replace": repl}, "", " ")
	f := filepath.Join(buildDir, fmt.Sprintf("overlay-%d-%d.json", os.Getpid(), time.Now().UnixNano()))
	return f, os.WriteFile(f, b, 0644)
}

// buildWorker builds the worker from the CURRENT working tree of repo.
func buildWorker(repo string, race bool, extra map[string]string, tag string) (string, error) {
	ov, err := overlayFor(repo, extra)
	if err != nil {
		return "", err
	}
	defer os.Remove(ov)
	out := filepath.Join(buildDir, fmt.Sprintf("worker-%s-%d", tag, os.Getpid()))
	// Level 1: everything, including the layers that read the library's internal automaton / lexer API
	// (tag verifstruct). Level 2 (fallback when level 1 does not compile, e.g. after an internal refactoring of
	// the library): without those layers - the concrete, behavioural checks still run.
	var firstErr string
	for _, tags := range []string{"verif verifstruct", "verif"} {
		args := []string{"build", "-tags", tags, "-overlay", ov, "-o", out}
		if race {
			args = append(args, "-race")
		}
		args = append(args, "./internal/zverif/worker")
		cmd := exec.Command("go", args...)
		cmd.Dir = repo
		var buf bytes.Buffer
		cmd.Stdout, cmd.Stderr = &buf, &buf
		if err := cmd.Run(); err == nil {
			if firstErr != "" {
				fmt.Printf("NOTE: the structural layers are disabled for this run (the full harness does not build against this tree: %s)\n", firstLine(firstErr))
				reducedBuild = true
			}
			return out, nil
		} else if firstErr == "" {
			firstErr = strings.TrimSpace(buf.String())
		}
	}
	return "", fmt.Errorf("worker build failed:\n%s", firstErr)
}

// reducedBuild: the worker of this run was built without the verifstruct layers
var reducedBuild bool

func cmdSetup() int {
	t0 := time.Now()
	for _, race := range []bool{false, true} {
		w, err := buildWorker(repoDir, race, nil, "setup")
		if err != nil {
			fmt.Fprintln(os.Stderr, err)
			return 1
		}
		os.Remove(w)
	}
	// the source-instrumented build of C20 (deterministic for a given tree, so the cache is hit later)
	dir := filepath.Join(buildDir, "instr-setup")
	os.RemoveAll(dir)
	if repl, _, err := instrumentRepo(repoDir, dir); err == nil {
		if w, err := buildWorker(repoDir, false, repl, "setup-instr"); err == nil {
			os.Remove(w)
		} else {
			fmt.Fprintln(os.Stderr, err)
			return 1
		}
	}
	os.RemoveAll(dir)
	fmt.Printf("setup ok (%.1fs)\n", time.Since(t0).Seconds())
	return 0
}
