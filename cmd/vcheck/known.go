package main

import (
	"encoding/json"
	"os"
	"path/filepath"
	"regexp"
	"strings"
)

// known_findings.json is committed and never written at run time.
//
//	{"findings":[{"id":..,"property":"C06","status":"known"|"fixed","key":"exact key" | "key_regex":"..","what":"..","commit":".."}]}
//
// Only status "known" suppresses anything; "fixed" entries are documentation.
type knownFinding struct {
	ID       string `json:"id"`
	Property string `json:"property"`
	Status   string `json:"status"`
	Key      string `json:"key,omitempty"`
	KeyRegex string `json:"key_regex,omitempty"`
	What     string `json:"what"`
	Commit   string `json:"commit,omitempty"`
	re       *regexp.Regexp
}

type knownSet struct{ Findings []*knownFinding }

func loadKnown() *knownSet {
	ks := &knownSet{}
	b, err := os.ReadFile(filepath.Join(verifDir, "known_findings.json"))
	if err != nil {
		return ks
	}
	var doc struct {
		Findings []*knownFinding `json:"findings"`
	}
	if json.Unmarshal(b, &doc) != nil {
		return ks
	}
	for _, f := range doc.Findings {
		if f.KeyRegex != "" {
			f.re, _ = regexp.Compile(f.KeyRegex)
		}
	}
	ks.Findings = doc.Findings
	return ks
}

func (ks *knownSet) match(prop, key string) *knownFinding {
	for _, f := range ks.Findings {
		if f.Property != prop || strings.ToLower(f.Status) != "known" {
			continue
		}
		if f.Key != "" && f.Key == key {
			return f
		}
		if f.re != nil && f.re.MatchString(key) {
			return f
		}
	}
	return nil
}
