package main

// propDef binds one property of properties.jsonl to the worker check that decides it.
type propDef struct {
	ID               string
	Check            string // name of the worker check (one pass may serve several properties)
	Level            string
	Rule             string
	Assumptions      []string
	HangSecs         int
	CrashIsViolation bool
	Params           func(tier string) string
	Budget           [2]int // seconds: quick, thorough (0 = default)
	Custom           func(def *propDef, tier string, seed int) int
	CustomReplay     func(def *propDef, file string) int
}

func (d *propDef) BudgetS(tier string) int {
	i := 0
	if tier == "thorough" {
		i = 1
	}
	if d.Budget[i] > 0 {
		return d.Budget[i]
	}
	if tier == "thorough" {
		return 3600
	}
	return 900
}

var commonAssumptions = []string{
	"the harness is added to the repository's module at build time through `go build -overlay` (tag verif); the library's own files are compiled unmodified from /repo's current working tree",
	"the exit stub ends the calling goroutine (runtime.Goexit) as the in-process model of os.Exit",
	"bounded exhaustive: nothing is claimed beyond the stated size/length/depth bounds and alphabets",
}

var propDefs = map[string]*propDef{}

func addProp(d *propDef) {
	d.Assumptions = append(append([]string{}, d.Assumptions...), commonAssumptions...)
	propDefs[d.ID] = d
}

func init() {
	addProp(&propDef{
		ID: "C05", Check: "flow", Level: "fault_enumeration",
		Rule: "every vector in {absent, returns, panics with a distinct error value, calls Exit(10+i)}^(2d+3) over the d+1 Befores, the Action (never absent) and the d+1 Afters of the chain app->c1->..->cd, for every depth d in the bound, crossed with the three error policies at d<=2; all vectors are distinct by construction (mixed-radix counter); non-trivial = at least one hook panics or exits",
		Assumptions: []string{"reference = 30-line model of the documented interceptor diagram (harness/ref/flow.go)"},
	})
}
