package main

// propDef binds one property of properties.jsonl to the worker check that decides it.
type propDef struct {
	ID               string
	Check            string // name of the worker check (one pass may serve several properties)
	Level            string
	Rule             string
	Assumptions      []string
	HangSecs         int
	CrashIsViolation bool
	Params           func(tier string) string
	Budget           [2]int // seconds: quick, thorough (0 = default)
	Stages           []stage
	Custom           func(def *propDef, tier string, seed int) int
	CustomReplay     func(def *propDef, file string) int
}

func (d *propDef) BudgetS(tier string) int {
	i := 0
	if tier == "thorough" {
		i = 1
	}
	if d.Budget[i] > 0 {
		return d.Budget[i]
	}
	if tier == "thorough" {
		return 3600
	}
	return 900
}

var commonAssumptions = []string{
	"the harness is added to the repository's module at build time through `go build -overlay` (tag verif); the library's own files are compiled unmodified from /repo's current working tree",
	"the exit stub ends the calling goroutine (runtime.Goexit) as the in-process model of os.Exit",
	"bounded exhaustive: nothing is claimed beyond the stated size/length/depth bounds and alphabets",
}

var propDefs = map[string]*propDef{}

func addProp(d *propDef) {
	d.Assumptions = append(append([]string{}, d.Assumptions...), commonAssumptions...)
	propDefs[d.ID] = d
}

func init() {
	addProp(&propDef{
		ID: "C05", Check: "flow", Level: "fault_enumeration",
		Rule: "every vector in {absent, returns, panics with a distinct error value, calls Exit(10+i), dies of a genuine runtime error (shallow depths)}^(2d+3) over the d+1 Befores, the Action (never absent) and the d+1 Afters of the chain app->c1->..->cd, for every depth d in the bound, crossed with the three error policies at d<=2; all vectors are distinct by construction (mixed-radix counter); non-trivial = at least one hook panics or exits; at depth <= 2 every vector with a panicking hook is also run with four more kinds of panic value (user error type exposing ExitCode()/ExitStatus()/Code(), int, string, typed nil pointer): any value that is not a cli.Exit is re-raised unchanged; at depth <= 2 every vector with an exiting hook is also run with all hooks exiting with status 0, -1 and 256 (the status does not change the flow: the Afters run once, the process-exit function is called once with that status); second runs: the hooks are re-assigned before the second Run and must be the ones called",
		Assumptions: []string{"reference = 30-line model of the documented interceptor diagram (harness/ref/flow.go)"},
	})
}

func init() {
	langAssume := []string{
		"reference semantics = DESIGN.md section 4 (harness/ref/lang.go): set-based denotational matcher over reading states, maximal-munch option groups; verdicts hinging on U1/U2 (spec-level `--` over a partially consumed run, reach-over a malformed token) or on the group reading are counted as unclaimed, never judged",
		"declared programs: (std) flags a/aa, b/bb, valued o/out, arguments X, Y (logging custom flag.Value types, and built-in Bool/Strings types in the builtin tiers); (alt, own tiers) a flag whose long name is listed first (--aa/-a), a flag with two short names (-n/-m), a valued option with three names (--out/-o/--output), argument X",
	}
	addProp(&propDef{
		ID: "C01", Check: "lang", Level: "model_checking",
		Rule:        "structural layer: for every grammar-derived spec up to the structural size bound, the automaton compiled by the library (read back state by state) is compared with the partial-derivative automaton of the spec's AST by BFS over the product of the two subset automata (states/transitions = product states/edges; decides language equality over abstract letters for words of unbounded length; a distinguishing word is concretised and must be reproduced on Cli.Run before it is reported); concrete layer (= traces validated against the implementation): all grammar-derived spec strings up to the size bound (size = leaves + `...` + bracket pairs; deduplicated through a set) x all argument vectors up to the length bound over the token alphabet (every documented spelling, positionals, '-', '--', undeclared and malformed tokens), plus per spec all words over the spec's own letters up to length 5/6 (8/9 when the spec has at most two letters) (model traces); each pair is run on a freshly built application through Cli.Run and judged by the reference; pairs are distinct by construction; non-trivial = the reference accepts, or some atom consumed a token before rejecting; built-in tier: every case a second time with one caller-owned default slice behind every multi-valued declaration (acceptance unchanged); third declaration sets `num` and `val2` (two valued options, command lines of up to 5 tokens) (flags -4/--ipv4 and -6, flags -i -n/--nan -f/--nan-ok, valued -p/--port); structural layer also over the operator towers W3(W1(a) op W2(b)), W any stack of <= 2 (thorough 3) of [s], (s)..., [s]...; one tier with the standard program declared on a sub-command `sub` (lazy initialisation, command line prefixed with `sub`)",
		Assumptions: langAssume,
		Budget:      [2]int{1200, 7200},
	})
	addProp(&propDef{
		ID: "C02", Check: "lang", Level: "exploration",
		Rule:        "same (spec, argv) space as C01; judged on every accepted pair: the per-container value lists observed inside the Action must equal the bindings of one accepting derivation of the reference (all derivations are computed, ambiguous specs included), and independently of the reference matcher every option holds exactly its occurrences' values in command-line order and the positional tokens are partitioned in order over the arguments; non-trivial = accepted pairs with a claimed verdict; built-in tier: the same case with one caller-owned default slice behind every multi-valued declaration binds the same values; declaration sets `num` and `val2` (two valued options, command lines of up to 5 tokens); inline value `w_-=z`; one tier with the standard program declared on a sub-command `sub` (lazy initialisation, command line prefixed with `sub`)",
		Assumptions: langAssume,
		Budget:      [2]int{1200, 7200},
	})
}

func init() {
	addProp(&propDef{
		ID: "C03", Check: "term", Level: "exploration", CrashIsViolation: true, HangSecs: 10,
		Rule: "(i) every string up to the length bound over 22 class representatives (20 bytes and 2 multi-byte characters whose low code-point byte is an ASCII letter) as spec; (ii) every sequence of lexemes up to the bound joined three ways; (iii) every grammar-derived spec up to the size bound x every argv up to the length bound x every subset of {a,o} backed by a set environment variable; each (spec, argv, env) case is executed in a supervised worker process (64 MiB stack limit, hang watchdog) and its outcome class judged; a worker that dies or stops making progress is attributed to the single case it was executing through an mmap'ed state record, and that case is re-run alone three times before it is reported; non-trivial = the spec is rejected at a position > 0, or compiled and the command line was accepted or rejected; space (v): operator towers W3(W1(a) op W2(b)) over seven leaf pairs, W any stack of <= 2 (thorough 3) of [s], (s)..., [s]..., x 9 argvs x 4 environment subsets; space (vi): all strings of <= 4 symbols over blanks and their look-alikes",
		Assumptions: []string{"liveness oracle: no progress on one case for 10 s (normal cost 3-30 microseconds), confirmed by three isolated re-runs with a 30 s deadline; stack exhaustion is detected by the Go runtime (debug.SetMaxStack 64 MiB), not by time"},
		Budget:      [2]int{1500, 7200},
	})
}

func init() {
	metaAssume := []string{
		"metamorphic: the implementation is compared with itself on two command lines that the property declares equivalent; the reading of a command line into occurrences/positionals (harness/ref/reading.go, DESIGN.md 4.2) decides which pairs are compared and is written from the documentation",
		"declared programs: (std) flags a/aa, b/bb, valued o/out, arguments X, Y; (alt, own tier) --aa/-a flag, -n/-m flag, --out/-o/--output valued option, X (logging custom flag.Value types)",
	}
	addProp(&propDef{
		ID: "C09", Check: "meta", Level: "exploration",
		Rule:        "part 1: every `--`-free grammar-derived spec up to the size bound x every argv up to the length bound without `--` and without malformed token x every insertion point of `--` from the start of the trailing block of non-dash positional items to the very end: the outcome (acceptance and every binding) of the two real runs must be identical; part 2: every spec of the bound containing `--` x every argv of length <=3 over {x,-a,-z,--zz,--,-,-o,-o=}: acceptance and bindings against the reference (tokens after the marker verbatim); evaluations = compared pairs; non-trivial = pairs whose base outcome is an acceptance; part 3: replacing every token after the first `--` by a neutral placeholder changes nothing but the bound strings; one tier with the standard program declared on a sub-command `sub` (lazy initialisation, command line prefixed with `sub`)",
		Assumptions: metaAssume,
	})
	addProp(&propDef{
		ID: "C10", Check: "meta", Level: "exploration",
		Rule:        "every `--`-free grammar-derived spec up to the size bound x all argvs up to the length bound over the spelling alphabet; argvs are bucketed by their reading (sequence of (option,value) occurrences, positionals, end marker); every member of a bucket must have the outcome of the bucket's first member, accepted or not; evaluations = member-vs-representative comparisons; non-trivial = at least one of the two is accepted; the tables of the first tier are built a second time with both env-backed options satisfied by their environment variables; declaration set `num` (digit-named flag, folds reading like numbers); one tier with the standard program declared on a sub-command `sub` (lazy initialisation, command line prefixed with `sub`)",
		Assumptions: metaAssume,
	})
	addProp(&propDef{
		ID: "C11", Check: "meta", Level: "exploration",
		Rule:        "every `--`-free grammar-derived spec up to the size bound x every argv up to the length bound x every adjacent pair of occurrences of different options (two whole-token occurrences of 1 or 2 tokens, two neighbouring letters of a flag fold, or a whole folded token with its value moved past an adjacent occurrence of an option it does not contain): the swapped command line must have the identical outcome; evaluations = compared pairs; non-trivial = at least one of the two is accepted; the tables of the first tier are built a second time with both env-backed options satisfied by their environment variables; declaration set `num`; one tier with the standard program declared on a sub-command `sub` (lazy initialisation, command line prefixed with `sub`)",
		Assumptions: metaAssume,
	})
}

func init() {
	addProp(&propDef{
		ID: "C12", Check: "env", Level: "exploration",
		Rule: "every grammar-derived spec up to the size bound x every argv up to the length bound x every non-empty subset E of {a, o} backed by a set, valid environment variable; two real runs (variables unset / set): (1) accepted unset => accepted set; (2) for specs without `--`: written options hold exactly their command-line values, unwritten env-backed options hold the environment value; (3) for argvs naming no option of E: reference(spec with E's single atoms optional) accepts => accepted, reference(... and groups containing an E option optional) rejects => rejected (in between: unclaimed U3); non-trivial = accepted in at least one of the two runs; env set {a: 0} (a false spelling satisfies like any valid value); acceptance with built-in value types equals acceptance with the custom types; size <= 2 also with the program declared on a sub-command",
		Assumptions: []string{"reference semantics of DESIGN.md section 4 with env-backed atoms made optional", "environment variables VQ_A / VQ_O are set only around the declaration of the application under test and unset afterwards"},
	})
}

func init() {
	addProp(&propDef{
		ID: "C08", Check: "syntax", Level: "exploration",
		Rule: "(i) every non-empty string up to the length bound over 22 class representatives (20 bytes and 2 multi-byte characters whose low code-point byte is an ASCII letter), (ii) every sequence of lexemes up to the bound joined by nothing / a space / a tab, each against two declaration sets so that every name occurs declared and undeclared; reference = leftmost-longest tokenizer of the lexical conventions (DESIGN.md 4.5) + generic Earley recogniser over the EBNF given as data + the two context conditions; judged: compiled <=> well-formed, error position within the first offending lexeme and <= len(spec), no hook runs on rejection, tokens of an accepted spec partition its non-blank bytes; non-trivial = the string lexes to >= 2 tokens or is rejected at a position > 0; every rejected spec is also run as `app -v` (version flag declared) and `app --help`: the same panic with the same position, nothing printed instead; every accepted spec is run a second time on the same instance; spaces (vi) blanks and look-alikes, (vii) declaration set {d/dry-run, k/keep_all; SRC_DIR}; space (viii): annotation fragments after four non-empty prefixes",
		Assumptions: []string{"lexical conventions not fixed by the documentation are taken from the code and listed in DESIGN.md 4.5 (e.g. `--` is the end-of-options token only before a space or the end of the string)"},
	})
}

func init() {
	addProp(&propDef{
		ID: "C04", Check: "route", Level: "exploration",
		Rule: "command trees: the shapes listed under bounds (depth <=2 quick / <=3 thorough, fan-out 2, 1-2 aliases, one alias equal to a value used at another level) x every assignment of the per-level declaration/spec pairs {none, `[-f]`, `X`, `[-f] X`, `[X]`, `-f X...`, `[-f] [-- X...]`} x every target command x every alias combination along its path x every combination of per-level argvs from {(empty), -f, x, -f x, x y, -z, --, -- x, -f -- -f} that do not name a direct sub-command; each invocation runs on a freshly built application; the reference router splits at the first token naming a direct child, validates the prefix with the reference matcher and recurses; judged: exactly the addressed Action ran once, each level holds its own tokens, or the first rejecting level yields an error and nothing ran; non-trivial = invocations reaching depth >= 1; versioned trees: the root declares Version(\"v version\"), levels `[-f] X` or (below the root) `[-v] [X]` whose flag is spelled -v/--version - a version flag that is not the first argument is routed like any other token; command names with a comma, a dot, an equals sign, non-ASCII letters, upper case, one a prefix of another: every alias routes, fragments do not",
		Assumptions: []string{"per-level validation uses the reference semantics of DESIGN.md section 4"},
	})
}

func init() {
	addProp(&propDef{
		ID: "C07", Check: "policy", Level: "fault_enumeration",
		Rule: "command trees of the bound with Before/After/Action on every level x spec assignments over {`[-f]`, `[-f] X`, `[-i...] [-o]` (repeatable int option, string option), `N` (int argument)} x every target x per-level argvs covering every rejection kind (spec mismatch at each level, undeclared option, missing value, unconvertible value for an int option / argument) and accepted controls x every assignment of {ContinueOnError, ExitOnError, PanicOnError} to the root and of {inherited, ContinueOnError, ExitOnError, PanicOnError} to every deeper level of the path, set inside each command's initializer; judged against the reference router: rejected => no hook and no Action ran, the error text and a `Usage: <full path of the rejecting command>` line on the error stream, then exactly the policy of that command; accepted => hooks in nesting order, nil, no exit, no panic; non-trivial = rejected invocations; with Version(\"v version\") declared: rejected invocations ending in a version flag are still rejections under every root policy; deep tree (5 levels, siblings on every level): a rejection at every command x 3 root policies, usage of exactly that command",
		Assumptions: []string{"per-level validation uses the reference semantics of DESIGN.md section 4 plus strconv for int containers"},
	})
}

func init() {
	addProp(&propDef{
		ID: "C14", Check: "help", Level: "exploration",
		Rule: "command trees of the bound (hooks on every level, long descriptions set) x spec assignments over {`[-f]`, `[-f] X`, `[-f] [-- X...]`} x every target x every alias combination x per-level argvs (valid, invalid, with and without `--`) x a -h/--help token inserted at every position x the three policies; plus a declared version flag as first argument; judged: the long help of the command named by the sub-command names preceding the token (`Usage: <full path>` line of exactly that command, long description), no `Error:` line, no hook, exit 0 under ExitOnError else nil; a help token after `--` in the same command's own arguments must be bound as data; cases where an ancestor's own arguments contain `--` are generated, counted, not judged; non-trivial = judged help/version requests; help of a command declared after the first Run of the instance",
		Assumptions: []string{"the addressed command is computed by a 5-line walk over the sub-command names preceding the token"},
	})
}

func init() {
	vrule := "product of: the seven built-in types x {option with spec `[-x...]`, argument with spec `[X...]`} x {value-returning, *Ptr} declaration forms x default {zero, non-zero} x environment lists of 0, 1 or 2 variables each {unset, empty, valid, invalid, (multi) list with blanks, list with an invalid element} x command lines giving the value 0, 1 or 2 times in every spelling; plus, on the same application instance, a second Run whose command line gives one value (it must replace whatever the first parse left); every case with the item on the application and on a lazily initialised sub-command; all cases distinct by construction; non-trivial = at least two of {command line, environment, default} offer a value"
	addProp(&propDef{
		ID: "C06", Check: "values", Level: "exploration",
		Rule:        vrule + "; judged: the variable read inside the Action equals the 10-line reference (command-line values if any - multi: exactly those, single: the last; else the first non-empty valid variable; else the default); one variable behind two declarations (*Ptr forms, Var): 8 types x {option+argument, two options, two arguments} x every subset given x {root, sub-command}: the variable holds the value of a declaration that was given one; *Ptr forms declare over pre-filled variables; every case also with HideValue; env state padded-single (blanks make a number invalid, belong to a string); command lines spelling the value the variable already holds; one default slice behind two list declarations: a value written for one never changes the other",
		Assumptions: []string{"validity of the few environment tokens used here is obvious (42 / zz, 2.25 / zz, true / maybe); agreement with strconv on arbitrary tokens is C13"},
	})
	addProp(&propDef{
		ID: "C15", Check: "values", Level: "exploration",
		Stages: []stage{{Name: "values", Build: "plain"}, {Name: "lang", Build: "plain", Check: "lang"}, {Name: "env", Build: "plain", Check: "env"}},
		Rule:        vrule + "; judged: the SetByUser flag read inside the Action is true iff the command line supplied at least one value; second stage: on every accepted (spec, argv) pair of C01's concrete space (custom value types, five containers per application, and on both levels of a depth-1 command tree in the values stage) the SetByUser flag of every container is true iff the reference binds at least one command-line token to it; third stage: the (spec, argv, environment subset) space of C12 - an option whose value came from the environment only is never reported as set by the user, a written one always is; one variable behind two declarations, each with its own flag: each flag is true iff the command line supplied a value for that declaration",
		Assumptions: []string{"same product as C06", "second stage: bound tokens per container from the reference semantics of DESIGN.md section 4"},
		Budget:      [2]int{1200, 7200},
	})
}

func init() {
	addProp(&propDef{
		ID: "C13", Check: "conv", Level: "exploration",
		Rule: "every token of the bound (all strings up to the length bound over a 20-character alphabet of digits, signs, exponent / hex / inf / nan / bool letters, underscore and blank, plus a fixed list of edge cases) x the seven built-in types x every delivery (-x=tok, -xtok, -x tok, --xx=tok, --xx tok, positional, positional after --, environment variable, element of an environment list) that the reading rules allow for the token; judged against strconv.ParseInt(s,10,64) / ParseFloat(s,64) / ParseBool called by the oracle: accepted and equal (floats bit-for-bit, NaN = NaN) iff strconv accepts; otherwise a usage error with the Action not run (command line) or the variable ignored (environment); strings byte for byte; non-trivial = strconv rejects the token, or the type is a string type",
		Assumptions: []string{"the oracle is the Go standard library's strconv, as the property states"},
	})
}

func init() {
	addProp(&propDef{
		ID: "C16", Check: "implicit", Level: "exploration",
		Rule: "every declaration set of the bound (0-3 options among flag / valued / multi-valued / env-backed, 0-3 arguments each single or multi-valued, with and without a version flag) built twice - Spec left empty, and the explicit spec `[OPTIONS] A B ..` assembled by the oracle from the documentation's rule - x every argv up to the length bound over the set's own alphabet, with the declarations on the application and (argv length <= 3) on a lazily initialised sub-command: acceptance, every bound value, every SetByUser flag and the error text must be identical, and the usage line printed by the implicit variant on rejection must show the explicit spec; non-trivial = sets declaring at least two items",
		Assumptions: []string{"differential: the explicit-spec variant of the same library is the oracle; what that spec means is C01's business"},
	})
}

func init() {
	addProp(&propDef{
		ID: "C18", Check: "decl", Level: "exploration",
		Rule: "all sequences of <= 3 option declarations over the 16 name lists built from {a, b, aa, bb} (collisions between any two names of any two options, either order, short and long) and all sequences of <= 3 argument declarations over 16 candidate names (valid identifiers, lower case, leading digit / underscore, dash, dot, brackets, OPTIONS, non-ASCII, empty); judged: the declaration panics iff a name is already taken / the name is not [A-Z][A-Z0-9_]* or is OPTIONS; after a clean sequence every listed name, typed on the command line, sets exactly the variable it was listed for (one fresh application and one run per name), and every argument receives its own token; the declarations of a sequence rotate through eight option kinds (Bool, String, Int, Strings, Ints, Float64, Floats64, Var) / eight argument kinds, every sequence once per rotation offset, on the root command and inside the initialiser of a sub-command; plus the *Ptr forms into one shared variable, Version() against the option table and re-declaration after a Run; non-trivial = sequences with a collision or an invalid name",
		Assumptions: []string{"expected panics computed by a 10-line name table / one regular expression"},
	})
}

func init() {
	addProp(&propDef{
		ID: "C19", Check: "custom", Level: "exploration",
		Rule: "18 logging custom flag.Value types (2 decorator values of one Go type whose IsBoolFlag() answers differently, each used after the other; 12 struct types: every combination of IsBoolFlag absent/false/true, Clear absent/present, IsDefault absent/present; 4 types without optional methods whose underlying kind is bool, []string, string, int - capabilities come from the optional interfaces only) as option and as argument x 5 specs x 4 environment settings (unset, single, list, failing) x every argv up to length 3 over the option's spellings, values, a token on which Set fails, and `--`; judged on the per-instance call log: at declaration only the environment content is delivered, through Set (the exact sequence is not fixed by the property and not judged); during Run: Clear exactly once and first iff the type has Clear and a command-line value is bound, then Set with exactly the tokens the reference matcher binds, in order (Set(\"true\") for a bare flag of a type whose IsBoolFlag() is true; other types take a value); a Set error gives a usage error and the Action does not run; non-trivial = command lines with an accepting derivation",
		Assumptions: []string{"bound tokens come from the reference semantics of DESIGN.md section 4 (any accepting derivation)", "when two containers are filled and one Set fails, the other container may or may not have been filled (map iteration order): both are accepted"},
	})
}

func init() {
	addProp(&propDef{
		ID: "C17", Check: "helptext", Level: "exploration",
		Rule: "every single-item declaration over the full variant product (option name lists, environment lists, the seven built-in types and four custom flag.Value types (with and without IsBoolFlag / IsDefault) with zero / non-zero default, HideValue, empty / one-line / three-line descriptions; arguments alike; sub-commands with 1-3 aliases, Hidden, LongDesc) and every declaration set of <= 2 arguments + <= 2 options + <= 2 sub-commands over 6 variants per item, each at depth 0 and 1, short help (printed on a rejected invocation) and long help (--help); an environment variable named by an item is SET while the application is declared; the captured text is compared, after whitespace normalisation, with the ordered rows of a reference renderer (usage line with path, spec or the synthesised spec, COMMAND marker; description or long description; Arguments; Options with first short and first long name; non-hidden Commands with all aliases; env lists; declared defaults unless hidden), and hidden aliases must not occur anywhere; non-trivial = declarations with at least two items; every root-level case asks for the help three times on the same instance: identical output",
		Assumptions: []string{"how each built-in type prints its default (\"dflt\" quoted, [7, 8], 0 for a zero int/float, nothing for false / empty) is taken from the repository's golden help files"},
	})
}

func init() {
	addProp(&propDef{
		ID: "C20", Check: "indep", Level: "model_checking", HangSecs: 60,
		Stages: []stage{
			{Name: "hist", Build: "plain", Params: "mode=hist"},
			{Name: "sched", Build: "instr", Params: "mode=sched"},
			{Name: "race", Build: "race", Params: "mode=race", Shards: 1, Env: []string{"GOMAXPROCS=16"}},
			// order probes: thousands of different applications built and run one after another in the same
			// processes; a case that fails there but not alone is an order dependence
			{Name: "probe-help", Build: "plain", Check: "help", Props: "C14", OrderProbe: true, Thorough: true},
			{Name: "probe-values", Build: "plain", Check: "values", Props: "C06,C15", OrderProbe: true},
			{Name: "probe-custom", Build: "plain", Check: "custom", Props: "C19", OrderProbe: true},
			{Name: "probe-helptext", Build: "plain", Check: "helptext", Props: "C17", OrderProbe: true},
			{Name: "probe-conv", Build: "plain", Check: "conv", Props: "C13", OrderProbe: true},
			{Name: "probe-decl", Build: "plain", Check: "decl", Props: "C18", OrderProbe: true},
		},
		Rule: "(a0) argv reuse: 185 specs of size <= 2 x two declaration orders of the options x every command line of <= 3 tokens over 10 tokens: a fresh application is run with a caller-owned slice, the slice must read the same afterwards, and the application rebuilt and run with the very same slice must end the same (acceptance, bound values, SetByUser); default reuse: strings / ints / floats64 x {option, argument} x default slice with and without spare capacity x 0-3 command-line values: the caller's default slice is unchanged by a Run and a rebuilt application binds it again; (a) histories: every template rebuilt and rerun 120 times (identical outcomes), and every ordered sequence of <= 3 of 22 application templates (chosen to collide: same spec text with different declarations, same option names, the same environment variable read with different values, a rejection, a help request under ExitOnError, hooks with Exit, nested repetitions, implicit spec, two rejections caused by unconvertible values with other containers already collected, a rejection by the spec of a sub-command, two custom values of one Go type answering IsBoolFlag() differently, an accepted run under PanicOnError, an environment variable unset at declaration and exported before Run; error values returned by earlier runs of a history must keep reading the same) is built-and-run in one fresh process and every outcome compared with the template's outcome alone in a fresh process; (b) interleavings: the library sources are instrumented (overlay) with a scheduling point at every function entry, every loop head and before/after every statement mentioning a package-level variable; 2 (thorough: 3) templates run as cooperative threads; all schedules up to the preemption bound are enumerated depth-first (dense pass: every point; focused pass: tagged points only, higher bound), every execution on fresh objects; oracle per execution: each thread ends exactly as it does alone under the same instrumentation (result, bound values, exit codes and the text that thread itself wrote to the output stream), and no package-level variable is written by one thread and touched by another (conflict monitor); states = scheduling points visited, transitions = executions (schedules) run; traces validated = schedules executed on the real code (all of them); (c) the same bodies free-running in 16 goroutines under -race; (d) order probes: the enumerations of C06/C15, C19, C17, C13 and C18 (thorough: also C14) (millions of different applications built and run one after another in 16 long-lived processes) are run once more, and a case that fails there but passes alone in a fresh process is reported as an order dependence; non-trivial = executions with at least one preemption, histories of length >= 2",
		Assumptions: []string{"interleavings are explored at the granularity of the inserted scheduling points; Go memory-model effects below that granularity are left to the free-running -race pass, which is not exhaustive", "a report of the race detector is taken as proof (no confirmation replay)", "concurrent applications share the package-level output stream by design: outputs are compared in histories only"},
	})
}
