// vcheck: driver of the verification machinery for jawher/mow.cli.
//
//	vcheck setup                      build caches (worker plain and -race)
//	vcheck run <property> [tier]      run one property's check, write evidence, exit 0/1
//	vcheck replay <file>              re-run one recorded violation
//	vcheck mutants [ids...]           run the seeded/mutant patches against the checks
//
// The driver imports nothing from the library; it builds the worker INTO the
// module of the repository with `go build -overlay` (the working tree of the
// repository is never modified), shards the bounded space over worker
// processes, supervises them (crash / hang attribution through an mmap'ed
// state file), confirms every reported violation by replaying it alone three
// times, matches it against known_findings.json and writes the evidence file.
package main

import (
	"fmt"
	"os"
	"path/filepath"
	"strings"
)

var (
	verifDir = "/verif"
	repoDir  = "/repo"
	buildDir string
)

func main() {
	if v := os.Getenv("VERIF_DIR"); v != "" {
		verifDir = v
	} else if wd, err := os.Getwd(); err == nil {
		// run from any checkout of /verif (e.g. a `vp run` snapshot)
		for d := wd; d != "/"; d = filepath.Dir(d) {
			if _, err := os.Stat(filepath.Join(d, "properties.jsonl")); err == nil {
				verifDir = d
				break
			}
		}
	}
	if v := os.Getenv("VERIF_REPO"); v != "" {
		repoDir = v
	}
	buildDir = filepath.Join(verifDir, ".build")
	os.MkdirAll(buildDir, 0755)
	setGoEnv()
	if len(os.Args) < 2 {
		usage()
	}
	switch os.Args[1] {
	case "setup":
		os.Exit(cmdSetup())
	case "run":
		if len(os.Args) < 3 {
			usage()
		}
		tier := os.Getenv("VERIF_TIER")
		if len(os.Args) > 3 {
			tier = os.Args[3]
		}
		if tier != "thorough" {
			tier = "quick"
		}
		os.Exit(cmdRun(strings.ToUpper(os.Args[2]), tier))
	case "replay":
		if len(os.Args) < 3 {
			usage()
		}
		os.Exit(cmdReplay(os.Args[2]))
	case "mutants":
		os.Exit(cmdMutants(os.Args[2:]))
	default:
		usage()
	}
}

func usage() {
	fmt.Fprintln(os.Stderr, "usage: vcheck setup | run <Cxx> [quick|thorough] | replay <file> | mutants [name...]")
	os.Exit(64)
}

func setGoEnv() {
	os.Setenv("GOFLAGS", "-mod=mod")
	os.Setenv("GOPROXY", "off")
	os.Setenv("GOSUMDB", "off")
	os.Setenv("GOTOOLCHAIN", "local")
	os.Setenv("CGO_ENABLED", os.Getenv("CGO_ENABLED"))
	// the worker must see exactly the variables a case sets
	for _, kv := range os.Environ() {
		if strings.HasPrefix(kv, "VQ_") {
			os.Unsetenv(kv[:strings.IndexByte(kv, '=')])
		}
	}
}
