package main

// standaloneTest renders, where the check family supports it, the text of a plain
// Go test that reproduces the violation with nothing but the public API.
func standaloneTest(v *violation) string {
	if s, ok := v.Case["go_test"].(string); ok {
		return s
	}
	return ""
}
