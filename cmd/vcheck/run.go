package main

import (
	"bufio"
	"encoding/hex"
	"bytes"
	"crypto/sha1"
	"encoding/json"
	"fmt"
	"io"
	"os"
	"os/exec"
	"path/filepath"
	"runtime"
	"sort"
	"strconv"
	"strings"
	"sync"
	"time"
)

type violation struct {
	T    string                 `json:"t"`
	Prop string                 `json:"prop"`
	Key  string                 `json:"key"`
	Case map[string]interface{} `json:"case"`
	Exp  string                 `json:"exp"`
	Obs  string                 `json:"obs"`
	stage  string // stage whose worker reported it
	probe  bool   // reported by an order-probe stage (another property's enumeration)
	proven bool   // needs no replay confirmation (race detector report)
	// crash-type candidates (worker died / hung on this case)
	crash   bool
	shard   int
	ordinal uint64
}

type lostCase struct {
	Shard   int    `json:"shard"`
	Ordinal uint64 `json:"ordinal"`
	Payload string `json:"-"`
	Text    string `json:"case"`
	Reason  string `json:"reason"`
}

type shardResult struct {
	counters map[string]int64
	samples  map[string][]interface{}
	notes    map[string]string
	viols    []violation
	lost     []lostCase
	complete bool
	wall     float64
	stderr   string
}

type snapDoc struct {
	Counters map[string]int64         `json:"counters"`
	Samples  map[string][]interface{} `json:"samples"`
	Notes    map[string]string        `json:"notes"`
	Wall     float64                  `json:"wall_s"`
}

var stageWorker = map[string]string{}

type stage struct {
	Name   string
	Check  string // worker check of this stage (default: the property's)
	Props  string // properties whose oracles are enabled in this stage (default: the property itself)
	// OrderProbe: the stage runs ANOTHER property's enumeration in long-lived worker processes; a candidate of
	// that enumeration which does not reproduce alone in a fresh process is an order dependence between
	// applications (C20); one that does reproduce alone belongs to that other property and is ignored here
	OrderProbe bool
	Thorough   bool // stage runs in the thorough tier only
	Build  string // plain | instr | race
	Params string
	Shards int
	Env    []string
}

func firstRaceReport(stderr string) string {
	i := strings.Index(stderr, "WARNING: DATA RACE")
	if i < 0 {
		return ""
	}
	rep := stderr[i:]
	if j := strings.Index(rep, "=================="); j > 0 {
		rep = rep[:j]
	}
	var keep []string
	for _, l := range strings.Split(rep, "\n") {
		l = strings.TrimSpace(l)
		if l == "" || strings.HasPrefix(l, "/") && !strings.Contains(l, "mow.cli") {
			continue
		}
		keep = append(keep, l)
		if len(keep) > 14 {
			break
		}
	}
	return strings.Join(keep, " | ")
}

type runner struct {
	check   string
	env     []string
	def     *propDef
	tier    string
	worker  string
	nshards int
	params  string
	props   string
	hang    int

	mu       sync.Mutex
	procs    map[*exec.Cmd]bool
	stopping bool
}

func jobs() int {
	if v, err := strconv.Atoi(os.Getenv("VERIF_JOBS")); err == nil && v > 0 {
		return v
	}
	n := runtime.NumCPU()
	if n > 16 {
		n = 16
	}
	return n
}

func (r *runner) startWorker(args []string) (*exec.Cmd, io.ReadCloser, *bytes.Buffer, error) {
	cmd := exec.Command(r.worker, args...)
	cmd.Env = append(os.Environ(), "GOMAXPROCS=2", "GOTRACEBACK=single")
	cmd.Env = append(cmd.Env, r.env...)
	stdout, err := cmd.StdoutPipe()
	if err != nil {
		return nil, nil, nil, err
	}
	var errb bytes.Buffer
	cmd.Stderr = &limitedWriter{w: &errb, n: 1 << 16}
	r.mu.Lock()
	if r.stopping {
		r.mu.Unlock()
		return nil, nil, nil, fmt.Errorf("stopping")
	}
	err = cmd.Start()
	if err == nil {
		r.procs[cmd] = true
	}
	r.mu.Unlock()
	return cmd, stdout, &errb, err
}

type limitedWriter struct {
	w *bytes.Buffer
	n int
}

func (l *limitedWriter) Write(p []byte) (int, error) {
	if l.w.Len() < l.n {
		k := l.n - l.w.Len()
		if k > len(p) {
			k = len(p)
		}
		l.w.Write(p[:k])
	}
	return len(p), nil
}

func (r *runner) killAll() {
	r.mu.Lock()
	r.stopping = true
	for c := range r.procs {
		if c.Process != nil {
			c.Process.Kill()
		}
	}
	r.mu.Unlock()
}

func readState(path string) (uint64, string) {
	b, err := os.ReadFile(path)
	if err != nil || len(b) < 12 {
		return 0, ""
	}
	var ord uint64
	for i := 0; i < 8; i++ {
		ord |= uint64(b[i]) << (8 * uint(i))
	}
	n := int(b[8]) | int(b[9])<<8 | int(b[10])<<16 | int(b[11])<<24
	if n < 0 || 12+n > len(b) {
		n = 0
	}
	return ord, string(b[12 : 12+n])
}

// superviseShard runs one shard to completion, restarting the worker after the
// case on which it died.
func (r *runner) superviseShard(i int) *shardResult {
	res := &shardResult{counters: map[string]int64{}, samples: map[string][]interface{}{}, notes: map[string]string{}}
	stateFile := filepath.Join(buildDir, fmt.Sprintf("state-%d-%d", os.Getpid(), i))
	defer os.Remove(stateFile)
	var skip uint64
	const maxRestarts = 8
	for attempt := 0; ; attempt++ {
		os.Remove(stateFile)
		args := []string{"-check", r.check, "-tier", r.tier, "-shard", strconv.Itoa(i), "-n", strconv.Itoa(r.nshards),
			"-state", stateFile, "-skip-to", strconv.FormatUint(skip, 10), "-hang", strconv.Itoa(r.hang), "-props", r.props}
		if r.params != "" {
			args = append(args, "-params", r.params)
		}
		cmd, stdout, errb, err := r.startWorker(args)
		if err != nil {
			return res
		}
		done := false
		var last *snapDoc
		sc := bufio.NewScanner(stdout)
		sc.Buffer(make([]byte, 1<<20), 64<<20)
		for sc.Scan() {
			line := sc.Bytes()
			if len(line) == 0 || line[0] != '{' {
				continue
			}
			var head struct {
				T string `json:"t"`
			}
			if json.Unmarshal(line, &head) != nil {
				continue
			}
			switch head.T {
			case "viol":
				var v violation
				if json.Unmarshal(line, &v) == nil {
					res.viols = append(res.viols, v)
				}
			case "done", "snap":
				var d snapDoc
				if json.Unmarshal(line, &d) == nil {
					last = &d
					if head.T == "done" {
						done = true
					}
				}
			}
		}
		if last != nil {
			// counters of this worker process (final, or the latest snapshot if it died)
			for k, v := range last.Counters {
				if strings.HasPrefix(k, "max_") {
					if v > res.counters[k] {
						res.counters[k] = v
					}
				} else {
					res.counters[k] += v
				}
			}
			for k, v := range last.Samples {
				res.samples[k] = append(res.samples[k], v...)
			}
			for k, v := range last.Notes {
				res.notes[k] = v
			}
			res.wall += last.Wall
		}
		werr := cmd.Wait()
		res.stderr = errb.String()
		r.mu.Lock()
		delete(r.procs, cmd)
		stopping := r.stopping
		r.mu.Unlock()
		if done && (werr == nil || strings.Contains(res.stderr, "DATA RACE")) {
			res.complete = true
			return res
		}
		if stopping {
			return res
		}
		// the worker died: attribute to the case it was executing
		ord, payload := readState(stateFile)
		reason := classifyDeath(werr, errb.String())
		res.lost = append(res.lost, lostCase{Shard: i, Ordinal: ord, Payload: payload, Reason: reason})
		if l := &res.lost[len(res.lost)-1]; true {
			l.Text = strings.ReplaceAll(payload, "\x1f", " | ")
		}
		// counters of a dead worker are lost; account for that
		res.counters["worker_deaths"]++
		if ord == 0 || ord <= skip || attempt >= maxRestarts {
			return res // cannot make progress: shard incomplete
		}
		skip = ord
	}
}

func classifyDeath(err error, stderr string) string {
	switch {
	case strings.Contains(stderr, "WORKER-HANG"):
		return "hang (no progress within the deadline)"
	case strings.Contains(stderr, "stack overflow") || strings.Contains(stderr, "goroutine stack exceeds"):
		return "fatal error: stack overflow"
	case strings.Contains(stderr, "WORKER-OOM") || strings.Contains(stderr, "out of memory"):
		return "memory exhausted"
	case strings.Contains(stderr, "panic:") || strings.Contains(stderr, "fatal error:"):
		ln := ""
		for _, l := range strings.Split(stderr, "\n") {
			if strings.HasPrefix(l, "panic:") || strings.HasPrefix(l, "fatal error:") {
				ln = l
				break
			}
		}
		return "runtime crash: " + ln
	}
	return fmt.Sprintf("worker died: %v %s", err, firstLine(stderr))
}

func firstLine(s string) string {
	if i := strings.IndexByte(s, '\n'); i >= 0 {
		return s[:i]
	}
	return s
}

// confirmReplay re-runs one candidate alone in a fresh worker, three times; it is
// believed only if it is reported every time with the same observation.
func (r *runner) confirmReplay(v *violation, file string) (bool, string) {
	got := make([]string, 3)
	errs := make([]error, 3)
	var wg sync.WaitGroup
	for k := 0; k < 3; k++ {
		wg.Add(1)
		go func(k int) {
			defer wg.Done()
			cmd := exec.Command(r.worker, "-replay", file, "-props", v.Prop, "-hang", "20")
			cmd.Env = append(os.Environ(), "GOMAXPROCS=2", "GOTRACEBACK=single")
			var out, errb bytes.Buffer
			cmd.Stdout, cmd.Stderr = &out, &limitedWriter{w: &errb, n: 1 << 14}
			err := cmd.Run()
			errs[k] = err
			for _, line := range strings.Split(out.String(), "\n") {
				var w violation
				if strings.HasPrefix(line, "{") && json.Unmarshal([]byte(line), &w) == nil && w.T == "viol" && w.Prop == v.Prop {
					got[k] = w.Obs
					break
				}
			}
			if got[k] == "" && err != nil && v.crash {
				got[k] = classifyDeath(err, errb.String())
			}
		}(k)
	}
	wg.Wait()
	broken := 0
	for k := 0; k < 3; k++ {
		if got[k] == "" && errs[k] != nil && !v.crash {
			broken++
		}
	}
	if broken == 3 {
		// the replay itself could not be executed (the worker died on the replay path): the candidate is
		// reported as observed during the exploration rather than silently dropped
		return true, v.Obs + " [replay could not be executed: " + errs[0].Error() + "; reported as observed]"
	}
	for k := 0; k < 3; k++ {
		if got[k] == "" {
			return false, fmt.Sprintf("replay %d did not reproduce (%v)", k, errs[k])
		}
		if got[k] != got[0] {
			return false, "replays disagree: " + got[0] + " / " + got[k]
		}
	}
	return true, got[0]
}

func writeReplay(v *violation) string {
	os.MkdirAll(replayDir(), 0755)
	h := sha1.Sum([]byte(v.Prop + "|" + v.Key))
	file := filepath.Join(replayDir(), fmt.Sprintf("%s-%x.json", v.Prop, h[:6]))
	doc := map[string]interface{}{
		"property": v.Prop, "key": v.Key, "case": v.Case, "expected": v.Exp, "observed": v.Obs,
		"how_to_replay": "cd /verif && ./check replay " + file,
	}
	if t := standaloneTest(v); t != "" {
		doc["standalone_go_test"] = t
	}
	b, _ := json.MarshalIndent(doc, "", " ")
	os.WriteFile(file, b, 0644)
	return file
}

func cmdRun(prop, tier string) int {
	def := propDefs[prop]
	if def == nil {
		fmt.Fprintf(os.Stderr, "no check for property %s\n", prop)
		return 64
	}
	t0 := time.Now()
	seed, _ := strconv.Atoi(os.Getenv("VERIF_SEED"))
	if def.Custom != nil {
		return def.Custom(def, tier, seed)
	}
	stages := def.Stages
	if len(stages) == 0 {
		stages = []stage{{Name: "main", Build: "plain"}}
	}
	budget := def.BudgetS(tier)
	if v, err := strconv.Atoi(os.Getenv("VERIF_BUDGET_S")); err == nil && v > 0 {
		budget = v
	}
	deadline := time.Now().Add(time.Duration(budget) * time.Second)
	var results []*shardResult
	budgetHit := false
	var r *runner
	var workers []string
	defer func() {
		for _, w := range workers {
			os.Remove(w)
		}
	}()
	stageNotes := map[string]string{}
	var raceReports []string
	var probeEvals int64
	built := map[string]string{}
	for _, stg := range stages {
		if stg.Thorough && tier != "thorough" {
			continue
		}
		var extra map[string]string
		if stg.Build == "instr" {
			dir := filepath.Join(buildDir, fmt.Sprintf("instr-%d", os.Getpid()))
			os.RemoveAll(dir)
			defer os.RemoveAll(dir)
			repl, ist, err := instrumentRepo(repoDir, dir)
			if err != nil {
				fmt.Fprintln(os.Stderr, err)
				fmt.Printf("CHECK-ERROR property=%s the instrumenter failed on the current tree\n", prop)
				return 2
			}
			extra = repl
			stageNotes["instrumentation"] = fmt.Sprintf("%d files instrumented, %d sites (%d tagged accesses to package-level variables); package-level variables of the module: %s", ist.Files, ist.Sites, ist.Tagged, strings.Join(ist.Vars, ", "))
		}
		worker := built[stg.Build]
		if worker == "" {
			var err error
			worker, err = buildWorker(repoDir, stg.Build == "race", extra, prop+"-"+stg.Name)
			if err != nil {
				fmt.Fprintln(os.Stderr, err)
				fmt.Printf("CHECK-ERROR property=%s the worker does not build against the current tree\n", prop)
				return 2
			}
			workers = append(workers, worker)
			built[stg.Build] = worker
		}
		r = &runner{def: def, tier: tier, worker: worker, nshards: jobs(), props: prop, hang: def.HangSecs, procs: map[*exec.Cmd]bool{}}
		if stg.Shards > 0 {
			r.nshards = stg.Shards
		}
		if stg.Props != "" {
			r.props = stg.Props
		}
		if r.hang == 0 {
			r.hang = 45 // liveness deadline between two heartbeats; generous, the box may be loaded
		}
		if def.Params != nil {
			r.params = def.Params(tier)
		}
		if stg.Params != "" {
			r.params = stg.Params
		}
		if stg.Env != nil {
			r.env = stg.Env
		}
		r.check = def.Check
		if stg.Check != "" {
			r.check = stg.Check
		}
		sres := make([]*shardResult, r.nshards)
		var wg sync.WaitGroup
		for i := 0; i < r.nshards; i++ {
			wg.Add(1)
			go func(i int) {
				defer wg.Done()
				sres[i] = r.superviseShard(i)
			}(i)
		}
		finished := make(chan struct{})
		go func() { wg.Wait(); close(finished) }()
		select {
		case <-finished:
		case <-time.After(time.Until(deadline)):
			budgetHit = true
			r.killAll()
			<-finished
		}
		r.mu.Lock()
		r.stopping = false
		r.mu.Unlock()
		for _, sr := range sres {
			if sr != nil && stg.Build == "race" && strings.Contains(sr.stderr, "DATA RACE") {
				raceReports = append(raceReports, firstRaceReport(sr.stderr))
			} else if sr != nil && stg.Build == "race" && strings.Contains(sr.stderr, "fatal error: concurrent map") {
				raceReports = append(raceReports, "fatal error: concurrent map access while applications run in different goroutines | "+firstLine(sr.stderr[strings.Index(sr.stderr, "fatal error: concurrent map"):]))
			}
			if sr != nil {
				for i := range sr.viols {
					sr.viols[i].stage = stg.Name
					sr.viols[i].probe = stg.OrderProbe
				}
				if stg.OrderProbe {
					// the probe's own counters must not be mixed into the property's coverage
					probeEvals += sr.counters["evaluations"]
					for k := range sr.counters {
						delete(sr.counters, k)
					}
					sr.samples = map[string][]interface{}{}
					sr.notes = map[string]string{}
				}
			}
		}
		results = append(results, sres...)
		stageWorker[stg.Name] = worker
		if budgetHit {
			break
		}
	}
	// aggregate
	agg := &shardResult{counters: map[string]int64{}, samples: map[string][]interface{}{}, notes: map[string]string{}, complete: true}
	for _, s := range results {
		if s == nil {
			agg.complete = false
			continue
		}
		for k, v := range s.counters {
			if strings.HasPrefix(k, "max_") {
				if v > agg.counters[k] {
					agg.counters[k] = v
				}
			} else {
				agg.counters[k] += v
			}
		}
		for k, v := range s.samples {
			if len(agg.samples[k]) < 3 {
				agg.samples[k] = append(agg.samples[k], v...)
				if len(agg.samples[k]) > 3 {
					agg.samples[k] = agg.samples[k][:3]
				}
			}
		}
		for k, v := range s.notes {
			agg.notes[k] = v
		}
		for k, v := range stageNotes {
			agg.notes[k] = v
		}
		agg.viols = append(agg.viols, s.viols...)
		agg.lost = append(agg.lost, s.lost...)
		if !s.complete {
			agg.complete = false
		}
	}

	// candidates
	var cands []*violation
	seen := map[string]bool{}
	for i := range agg.viols {
		v := &agg.viols[i]
		if v.Prop != prop || seen[v.Key] {
			continue
		}
		seen[v.Key] = true
		cands = append(cands, v)
	}
	// order probes: candidates of other enumerations that fail only after other applications ran in the same process
	probeChecked := 0
	for i := range agg.viols {
		v := &agg.viols[i]
		if !v.probe || probeChecked >= 6 {
			continue
		}
		probeChecked++
		file := writeReplay(v)
		if w := stageWorker[v.stage]; w != "" {
			r.worker = w
		}
		alone, why := r.confirmReplay(v, file)
		os.Remove(file)
		if alone || strings.Contains(why, "replay could not be executed") {
			continue // reproduces alone: a violation of that other property, not an order dependence
		}
		key := fmt.Sprintf("order dependence: %s case %s fails only after other applications ran in the same process", v.Prop, v.Key)
		if !seen["order"] {
			seen["order"] = true
			cands = append(cands, &violation{Prop: prop, Key: key, proven: true, Case: map[string]interface{}{"check": def.Check, "mode": "order-probe", "stage": v.stage, "other_property": v.Prop, "case": v.Case},
				Exp: "an application's outcome does not depend on which applications were built and run before it in the process (alone in a fresh process this case passes: " + why + ")", Obs: v.Obs})
		}
	}
	if probeEvals > 0 {
		agg.counters["order_probe_cases_run_in_long_lived_processes"] = probeEvals
	}
	for _, rep := range raceReports {
		key := "race detector: " + firstLine(rep)
		if !seen[key] {
			seen[key] = true
			cands = append(cands, &violation{Prop: prop, Key: key, proven: true, Case: map[string]interface{}{"check": def.Check, "mode": "race", "report": rep},
				Exp: "no data race between applications built and run in different goroutines", Obs: rep})
		}
	}
	if def.CrashIsViolation {
		for _, l := range agg.lost {
			if l.Ordinal == 0 {
				continue
			}
			parts := strings.Split(l.Payload, "\x1f")
			key := "crash " + strings.Join(parts, " | ")
			if seen[key] {
				continue
			}
			seen[key] = true
			cands = append(cands, &violation{Prop: prop, Key: key, crash: true, shard: l.Shard, ordinal: l.Ordinal,
				Case: map[string]interface{}{"check": r.check, "crash_case": strings.Join(parts, " | "), "crash_parts": parts, "crash_parts_hex": hexAll(parts), "tier": tier},
				Exp:  "terminates promptly with a documented outcome", Obs: l.Reason})
		}
	}
	sort.SliceStable(cands, func(i, j int) bool {
		if len(cands[i].Key) != len(cands[j].Key) {
			return len(cands[i].Key) < len(cands[j].Key)
		}
		return cands[i].Key < cands[j].Key
	})
	if len(cands) > 0 {
		var sb strings.Builder
		for _, v := range cands {
			fmt.Fprintf(&sb, "%s\t%s\texp=%s\tobs=%s\n", v.Prop, v.Key, v.Exp, v.Obs)
		}
		os.WriteFile(filepath.Join(buildDir, "last-candidates-"+prop+".txt"), []byte(sb.String()), 0644)
	}
	known := loadKnown()
	const maxConfirm = 12
	nViol, nKnown, nUnconfirmed := 0, 0, 0
	knownPrinted := map[string]bool{}
	var out []string
	for idx, v := range cands {
		kf := known.match(prop, v.Key)
		if kf == nil && nViol >= maxConfirm {
			break
		}
		if kf != nil && knownPrinted[kf.ID] {
			nKnown++
			continue
		}
		_ = idx
		file := writeReplay(v)
		if w := stageWorker[v.stage]; w != "" {
			r.worker = w
		}
		ok, why := true, v.Obs
		if !v.proven {
			ok, why = r.confirmReplay(v, file)
		}
		if !ok {
			nUnconfirmed++
			os.Remove(file)
			fmt.Printf("UNCONFIRMED property=%s key=%q (%s) — not reported\n", prop, v.Key, why)
			continue
		}
		if kf != nil {
			nKnown++
			knownPrinted[kf.ID] = true
			os.Remove(file)
			out = append(out, fmt.Sprintf("KNOWN-FINDING: property=%s %s [e.g. %s]", prop, kf.What, v.Key))
			continue
		}
		nViol++
		out = append(out, fmt.Sprintf("VIOLATION property=%s replay=%s", prop, file))
		if nViol <= 6 {
			out = append(out, fmt.Sprintf("  case: %s\n  expected: %s\n  observed: %s", v.Key, v.Exp, v.Obs))
		}
	}
	for _, l := range out {
		fmt.Println(l)
	}

	exhaustive := agg.complete && !budgetHit && len(agg.lost) == 0
	wall := time.Since(t0).Seconds()
	writeEvidence(def, tier, seed, agg, exhaustive, budgetHit, nViol, nKnown, nUnconfirmed, wall)
	fmt.Printf("%s %s: evaluations=%d nontrivial=%d violations=%d known=%d lost_cases=%d exhaustive=%v wall=%.1fs\n",
		prop, tier, pick(agg.counters, prop, "evaluations"), pick(agg.counters, prop, "nontrivial"), nViol, nKnown, len(agg.lost), exhaustive, wall)
	if nViol > 0 {
		return 1
	}
	return 0
}

func pick(c map[string]int64, prop, name string) int64 {
	if v, ok := c[prop+":"+name]; ok {
		return v
	}
	return c[name]
}

func writeEvidence(def *propDef, tier string, seed int, agg *shardResult, exhaustive, budgetHit bool, nViol, nKnown, nUnconf int, wall float64) {
	cov := map[string]interface{}{}
	cov["evaluations"] = pick(agg.counters, def.ID, "evaluations")
	cov["distinct_nontrivial"] = pick(agg.counters, def.ID, "nontrivial")
	cov["rule"] = def.Rule
	var samples []interface{}
	var keys []string
	for k := range agg.samples {
		keys = append(keys, k)
	}
	sort.Strings(keys)
	for _, k := range keys {
		if i := strings.IndexByte(k, ':'); i > 0 && strings.HasPrefix(k, "C") && k[:i] != def.ID {
			continue
		}
		for _, s := range agg.samples[k] {
			samples = append(samples, map[string]interface{}{"class": k, "case": s})
		}
	}
	if len(samples) > 40 {
		samples = samples[:40]
	}
	cov["samples"] = samples
	cov["exhaustive"] = exhaustive
	if def.Level == "model_checking" && pick(agg.counters, def.ID, "states") > 0 {
		cov["states"] = pick(agg.counters, def.ID, "states")
		cov["transitions"] = pick(agg.counters, def.ID, "transitions")
		cov["traces_validated_against_impl"] = pick(agg.counters, def.ID, "traces")
	}
	if reducedBuild {
		cov["reduced_build"] = "the layers that read the library's internal automaton / lexer API were left out: they do not compile against this tree"
	}
	other := map[string]int64{}
	for k, v := range agg.counters {
		if i := strings.IndexByte(k, ':'); !(i > 0 && strings.HasPrefix(k, "C")) {
			other[k] = v
		}
	}
	for k, v := range agg.counters {
		if i := strings.IndexByte(k, ':'); i > 0 && strings.HasPrefix(k, "C") && k[:i] == def.ID {
			other[k[i+1:]] = v
		}
	}
	cov["counters"] = other
	if len(agg.notes) > 0 {
		cov["bounds"] = agg.notes
	}
	if len(agg.lost) > 0 {
		l := agg.lost
		if len(l) > 20 {
			l = l[:20]
		}
		cov["lost_cases"] = l
		cov["lost_cases_total"] = len(agg.lost)
	}
	if budgetHit {
		cov["budget_hit"] = true
	}
	cov["known_findings_seen"] = nKnown
	cov["unconfirmed_candidates"] = nUnconf
	ev := map[string]interface{}{
		"property_id": def.ID, "tier": tier, "seed": seed, "level": def.Level,
		"coverage": cov, "assumptions": def.Assumptions, "wall_s": wall, "violations": nViol,
	}
	b, _ := json.MarshalIndent(ev, "", " ")
	os.MkdirAll(evidenceDir(), 0755)
	os.WriteFile(filepath.Join(evidenceDir(), def.ID+".json"), append(b, '\n'), 0644)
}

func cmdReplay(file string) int {
	b, err := os.ReadFile(file)
	if err != nil {
		fmt.Fprintln(os.Stderr, err)
		return 64
	}
	var doc struct {
		Prop string                 `json:"property"`
		Key  string                 `json:"key"`
		Case map[string]interface{} `json:"case"`
	}
	if json.Unmarshal(b, &doc) != nil || doc.Prop == "" {
		fmt.Fprintln(os.Stderr, "not a replay file")
		return 64
	}
	def := propDefs[doc.Prop]
	if def != nil && def.CustomReplay != nil {
		return def.CustomReplay(def, file)
	}
	worker, err := buildWorker(repoDir, false, nil, "replay")
	if err != nil {
		fmt.Fprintln(os.Stderr, err)
		return 2
	}
	defer os.Remove(worker)
	r := &runner{def: def, worker: worker, procs: map[*exec.Cmd]bool{}}
	v := &violation{Prop: doc.Prop, Key: doc.Key, Case: doc.Case}
	if _, ok := doc.Case["crash_case"]; ok {
		v.crash = true
	}
	ok, why := r.confirmReplay(v, file)
	if ok {
		fmt.Printf("VIOLATION property=%s replay=%s\n  case: %s\n  observed: %s\n", doc.Prop, file, doc.Key, why)
		return 1
	}
	fmt.Printf("replay of %s: no violation on the current tree (%s)\n", file, why)
	return 0
}

// Runs against a scratch copy (VERIF_REPO set: mutants, seeded changes) must never
// overwrite the evidence of the real tree.
func evidenceDir() string {
	if os.Getenv("VERIF_REPO") != "" {
		return filepath.Join(buildDir, "mut-evidence")
	}
	return filepath.Join(verifDir, "evidence")
}

func replayDir() string {
	if os.Getenv("VERIF_REPO") != "" {
		return filepath.Join(buildDir, "mut-replays")
	}
	return filepath.Join(verifDir, "replays")
}

func hexAll(parts []string) []string {
	var out []string
	for _, p := range parts {
		out = append(out, hex.EncodeToString([]byte(p)))
	}
	return out
}
