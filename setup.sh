#!/bin/sh
# MANIFEST.setup_cmd: build the driver and warm the build cache (worker plain and -race), offline.
cd "$(dirname "$0")" || exit 1
exec ./check setup
