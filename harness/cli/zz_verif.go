//go:build verif

// This file is NOT part of jawher/mow.cli. It is added to package cli at build
// time through `go build -overlay` by /verif (see /verif/DESIGN.md section 3);
// the working tree of /repo is never modified.
package cli

import "io"

// VerifSetIO redirects the package-level output streams and the process-exit
// indirection.
func VerifSetIO(out, err io.Writer, exit func(int)) {
	stdOut = out
	stdErr = err
	exiter = exit
}
