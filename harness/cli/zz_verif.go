//go:build verif

// This file is NOT part of jawher/mow.cli. It is added to package cli at build
// time through `go build -overlay` by /verif (see /verif/DESIGN.md section 3);
// the working tree of /repo is never modified.
package cli

import (
	"io"

	"github.com/jawher/mow.cli/internal/fsm"
)

// VerifSetIO redirects the package-level output streams and the process-exit
// indirection.
func VerifSetIO(out, err io.Writer, exit func(int)) {
	stdOut = out
	stdErr = err
	exiter = exit
}

// VerifFSM runs the command's initialisation (exactly what Run does first) and
// returns the compiled automaton that Run would use.
func VerifFSM(c *Cli) (*fsm.State, error) {
	if err := c.doInit(); err != nil {
		return nil, err
	}
	return c.fsm, nil
}
