//go:build verif && verifstruct

// Added to package cli through the overlay (see zz_verif.go). Separate file and tag: only the structural
// layer of C01 needs it, and it depends on unexported details of Cmd.
package cli

import "github.com/jawher/mow.cli/internal/fsm"

// VerifFSM runs the command's initialisation (exactly what Run does first) and
// returns the compiled automaton that Run would use.
func VerifFSM(c *Cli) (*fsm.State, error) {
	if err := c.doInit(); err != nil {
		return nil, err
	}
	return c.fsm, nil
}
