//go:build verif

// Package vsched is the cooperative scheduler used by the C20 interleaving
// exploration. The library sources are instrumented at check time (in an
// overlay; /repo is untouched) with calls to Point / Access. Outside a
// controlled execution these calls return at once.
//
// During a controlled execution exactly one thread runs at any time. At every
// point the running thread itself evaluates the schedule: it either continues,
// or wakes another thread and parks. Choice 0 always means "the running thread
// continues" (or, when it has finished, "the lowest-numbered live thread").
package vsched

import (
	"fmt"
	"sync/atomic"
)

var active int32

// Event of the conflict monitor: a tagged access to a package-level variable.
type AccessEv struct {
	Thread int
	Var    string
	Write  bool
}

type PointRec struct {
	NEnabled       int8 // alternatives at this point, in canonical order
	RunningEnabled bool // the running thread could have continued (switching away is a preemption)
	Tagged         bool // the point is (or directly follows) a tagged access
	Site           int32
}

type thread struct {
	id     int
	resume chan struct{}
	done   bool
	body   func()
	Panic  interface{}
}

type Exec struct {
	threads  []*thread
	cur      int
	prefix   []int
	Choices  []int
	Points   []PointRec
	Accesses []AccessEv
	Diverged bool
	finished chan struct{}
	live     int
	MaxPoints int
	Aborted  bool
}

var ex *Exec

// Current returns the id of the running thread of the active execution (-1 outside one).
func Current() int {
	if atomic.LoadInt32(&active) == 0 || ex == nil {
		return -1
	}
	return ex.cur
}

// Run executes the bodies as cooperative threads under the given choice prefix
// (choices beyond the prefix are 0) and returns the recorded execution.
func Run(bodies []func(), prefix []int) *Exec {
	e := &Exec{prefix: prefix, finished: make(chan struct{}), live: len(bodies), MaxPoints: 2000000}
	for i, b := range bodies {
		e.threads = append(e.threads, &thread{id: i, resume: make(chan struct{}, 1), body: b})
	}
	ex = e
	atomic.StoreInt32(&active, 1)
	for _, t := range e.threads {
		t := t
		go func() {
			<-t.resume
			defer func() {
				if r := recover(); r != nil {
					t.Panic = r
				}
				e.threadDone(t)
			}()
			t.body()
		}()
	}
	// the first decision: which thread starts (no thread is running: not a preemption)
	e.cur = -1
	next := e.decide(false, false, -1)
	e.cur = next
	e.threads[next].resume <- struct{}{}
	<-e.finished
	atomic.StoreInt32(&active, 0)
	ex = nil
	return e
}

// enabled lists the live threads in canonical order: the running one first, then ascending ids.
func (e *Exec) enabled(runningEnabled bool) []int {
	var out []int
	if runningEnabled {
		out = append(out, e.cur)
	}
	for _, t := range e.threads {
		if !t.done && !(runningEnabled && t.id == e.cur) {
			out = append(out, t.id)
		}
	}
	return out
}

func (e *Exec) decide(runningEnabled, tagged bool, site int32) int {
	en := e.enabled(runningEnabled)
	i := len(e.Choices)
	choice := 0
	if i < len(e.prefix) {
		choice = e.prefix[i]
		if choice >= len(en) {
			e.Diverged = true
			choice = 0
		}
	}
	e.Choices = append(e.Choices, choice)
	e.Points = append(e.Points, PointRec{NEnabled: int8(len(en)), RunningEnabled: runningEnabled, Tagged: tagged, Site: site})
	return en[choice]
}

func (e *Exec) threadDone(t *thread) {
	t.done = true
	e.live--
	if e.live == 0 {
		close(e.finished)
		return
	}
	next := e.decide(false, false, -1)
	e.cur = next
	e.threads[next].resume <- struct{}{}
}

func (e *Exec) yield(tagged bool, site int32) {
	if len(e.Points) >= e.MaxPoints {
		e.Aborted = true
		return
	}
	self := e.cur
	next := e.decide(true, tagged, site)
	if next == self {
		return
	}
	e.cur = next
	e.threads[next].resume <- struct{}{}
	<-e.threads[self].resume
}

// Point is a scheduling point (function entry, loop head, after a tagged access).
func Point(site int32) {
	if atomic.LoadInt32(&active) == 0 {
		return
	}
	ex.yield(false, site)
}

// After is a scheduling point placed right after a tagged access.
func After(site int32) {
	if atomic.LoadInt32(&active) == 0 {
		return
	}
	ex.yield(true, site)
}

// Access is a scheduling point placed right before a statement that mentions a
// package-level variable of the module; it also feeds the conflict monitor.
func Access(site int32, name string, write bool) {
	if atomic.LoadInt32(&active) == 0 {
		return
	}
	e := ex
	e.yield(true, site)
	e.Accesses = append(e.Accesses, AccessEv{Thread: e.cur, Var: name, Write: write})
}

func (e *Exec) ThreadPanic(i int) interface{} { return e.threads[i].Panic }

// Preemptions counts the choices of the execution that switched away from a runnable thread.
func (e *Exec) Preemptions(upto int) int {
	n := 0
	for i := 0; i < upto && i < len(e.Choices); i++ {
		if e.Points[i].RunningEnabled && e.Choices[i] != 0 {
			n++
		}
	}
	return n
}

// Conflicts reports package-level variables touched by two different threads, at least one writing.
func (e *Exec) Conflicts() []string {
	type st struct {
		readers, writers map[int]bool
	}
	m := map[string]*st{}
	for _, a := range e.Accesses {
		s := m[a.Var]
		if s == nil {
			s = &st{map[int]bool{}, map[int]bool{}}
			m[a.Var] = s
		}
		if a.Write {
			s.writers[a.Thread] = true
		} else {
			s.readers[a.Thread] = true
		}
	}
	var out []string
	for v, s := range m {
		for w := range s.writers {
			for r := range s.readers {
				if r != w {
					out = append(out, fmt.Sprintf("%s: written by thread %d, read by thread %d", v, w, r))
				}
			}
			for w2 := range s.writers {
				if w2 > w {
					out = append(out, fmt.Sprintf("%s: written by threads %d and %d", v, w, w2))
				}
			}
		}
	}
	return out
}
