package ref

import (
	"regexp"
	"strings"
)

// Grammar-derived enumeration of spec strings (DESIGN.md section 5, "size"):
// size = number of leaves + one per `...` + one per bracket / parenthesis pair.

// Tick, when set, is called from inside the enumeration loops: generating a large size class takes seconds and
// the caller may need to show that it is alive.
var Tick func()

func tick() {
	if Tick != nil {
		Tick()
	}
}

type SpecGen struct {
	Leaves []string // leaf spellings, e.g. "-a", "--aa", "-ab", "OPTIONS", "X", "--"
	atoms  map[int][]string
	chs    map[int][]string
	seqs   map[int][]string
}

func NewSpecGen(leaves []string) *SpecGen {
	return &SpecGen{Leaves: leaves, atoms: map[int][]string{}, chs: map[int][]string{}, seqs: map[int][]string{}}
}

func (g *SpecGen) atomsOf(n int) []string {
	if n <= 0 {
		return nil
	}
	if r, ok := g.atoms[n]; ok {
		return r
	}
	var r []string
	if n == 1 {
		r = append(r, g.Leaves...)
	}
	if n == 2 {
		for _, l := range g.Leaves {
			if l != "--" {
				r = append(r, l+"...")
			}
		}
	}
	for _, s := range g.seqOf(n - 1) {
		r = append(r, "("+s+")", "["+s+"]")
	}
	for _, s := range g.seqOf(n - 2) {
		r = append(r, "("+s+")...", "["+s+"]...")
	}
	g.atoms[n] = r
	return r
}

// choice: one or more atoms separated by '|', sizes summing to n
func (g *SpecGen) choiceOf(n int) []string {
	if n <= 0 {
		return nil
	}
	if r, ok := g.chs[n]; ok {
		return r
	}
	var r []string
	r = append(r, g.atomsOf(n)...)
	for k := 1; k < n; k++ {
		for _, a := range g.atomsOf(k) {
			tick()
			for _, rest := range g.choiceOf(n - k) {
				r = append(r, a+"|"+rest)
			}
		}
	}
	g.chs[n] = r
	return r
}

// seq: one or more choices separated by blanks, sizes summing to n
func (g *SpecGen) seqOf(n int) []string {
	if n <= 0 {
		return nil
	}
	if r, ok := g.seqs[n]; ok {
		return r
	}
	var r []string
	r = append(r, g.choiceOf(n)...)
	for k := 1; k < n; k++ {
		for _, c := range g.choiceOf(k) {
			tick()
			for _, rest := range g.seqOf(n - k) {
				r = append(r, c+" "+rest)
			}
		}
	}
	g.seqs[n] = r
	return r
}

var ddFix = regexp.MustCompile(`(^|[ (\[|])--([)\]|])`)
var optAfterEnd = regexp.MustCompile(`(^|[ (\[|])-- .*(-[A-Za-z]|OPTIONS)`)

// Specs returns every well-formed spec of exactly size n, in a deterministic order.
// Specs with an option textually after a `--` are not well-formed and are left out.
func (g *SpecGen) Specs(n int) []string {
	var out []string
	seen := map[string]bool{}
	for i, s := range g.seqOf(n) {
		if i&1023 == 0 {
			tick()
		}
		for ddFix.MatchString(s) {
			s = ddFix.ReplaceAllString(s, "$1-- $2")
		}
		if strings.Contains(s, "--") && optAfterEnd.MatchString(s+" ") {
			continue
		}
		if !seen[s] {
			seen[s] = true
			out = append(out, s)
		}
	}
	return out
}

// Argvs enumerates every argument vector of length <= n over the alphabet, shortest first.
func Argvs(alpha []string, n int) [][]string {
	out := [][]string{{}}
	prev := [][]string{{}}
	for l := 1; l <= n; l++ {
		var cur [][]string
		for _, p := range prev {
			for _, t := range alpha {
				v := make([]string, len(p)+1)
				copy(v, p)
				v[len(p)] = t
				cur = append(cur, v)
			}
		}
		out = append(out, cur...)
		prev = cur
	}
	return out
}
