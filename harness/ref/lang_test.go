package ref

import "testing"

func TestGenCounts(t *testing.T) {
	g := NewSpecGen([]string{"-a", "-b", "-o", "--aa", "-ab", "OPTIONS", "X", "Y", "--"})
	tot := 0
	for n := 1; n <= 4; n++ {
		s := g.Specs(n)
		tot += len(s)
		t.Logf("size %d: %d specs (e.g. %q)", n, len(s), s[len(s)/2])
		for _, x := range s {
			if _, err := ParseSpec(Std(), x); err != nil {
				t.Fatalf("generated spec %q does not parse: %v", x, err)
			}
		}
	}
	t.Logf("total %d", tot)
}

func TestEvalBasics(t *testing.T) {
	d := Std()
	cases := []struct {
		spec string
		argv []string
		acc  bool
	}{
		{"X... Y", []string{"x", "v", "x"}, true},
		{"-a X", []string{"-a", "x"}, true},
		{"-a X", []string{"x", "-a"}, false},
		{"-a X", []string{"-", "-a"}, false},
		{"X", []string{"x", "--"}, true},
		{"[-a] [-o]", []string{"-ao", "v"}, true},
		{"-ab", []string{"-b", "--aa"}, true},
		{"X -- Y", []string{"x", "-a"}, true},
		{"[X]...", []string{}, true},
	}
	for _, c := range cases {
		n, err := ParseSpec(d, c.spec)
		if err != nil {
			t.Fatal(err)
		}
		e := &Eval{D: d, Argv: c.argv}
		v := e.Run(n)
		if v.Accept != c.acc {
			t.Errorf("%q %q: got %v want %v", c.spec, c.argv, v.Accept, c.acc)
		}
		t.Logf("%q %q -> %+v", c.spec, c.argv, v)
	}
}
