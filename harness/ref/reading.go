package ref

// Reading an argument vector independently of any spec (DESIGN.md 4.2).

const (
	ItOcc = iota // an option occurrence
	ItPos        // a positional token
	ItEnd        // the end-of-options marker --
	ItBad        // a malformed dash-prefixed token (never consumable as an option)
)

type Item struct {
	Kind   int
	Opt    int    // ItOcc: option index
	Val    string // ItOcc: value ("true" for a bare flag); ItPos/ItBad: the token
	Tok    int    // index of the (first) token
	NTok   int    // tokens spanned (2 for "-o v")
	InFold bool   // ItOcc: part of a token holding more than one occurrence
	Letter int    // ItOcc in a fold: index of the letter
	Bare   bool   // ItOcc: a flag written without =value
}

type Reading struct {
	Items       []Item
	OptVals     [][]string
	Positionals []string
	Malformed   bool // a malformed token occurs before options are ended
	Ended       int  // index of the token `--` that ended options, -1 if none
}

func ReadAll(d *Decl, argv []string) Reading {
	r := Reading{OptVals: make([][]string, len(d.Opts)), Ended: -1}
	i := 0
	for i < len(argv) {
		t := argv[i]
		if r.Ended >= 0 {
			r.Items = append(r.Items, Item{Kind: ItPos, Val: t, Tok: i, NTok: 1})
			r.Positionals = append(r.Positionals, t)
			i++
			continue
		}
		if t == "--" {
			r.Ended = i
			r.Items = append(r.Items, Item{Kind: ItEnd, Val: t, Tok: i, NTok: 1})
			i++
			continue
		}
		if positional(t) {
			r.Items = append(r.Items, Item{Kind: ItPos, Val: t, Tok: i, NTok: 1})
			r.Positionals = append(r.Positionals, t)
			i++
			continue
		}
		occs, used, mal := readToken(d, argv, i)
		fold := len(occs) > 1 || (mal && len(occs) > 0)
		for k, o := range occs {
			nt := 1
			if !mal && k == len(occs)-1 {
				nt = used
			}
			bare := d.Opts[o.opt].Flag && !(len(t) >= 3 && (t[2] == '=' || (len(t) > 2 && t[1] == '-' && containsEq(t))))
			r.Items = append(r.Items, Item{Kind: ItOcc, Opt: o.opt, Val: o.val, Tok: i, NTok: nt, InFold: fold, Letter: k, Bare: bare})
			r.OptVals[o.opt] = append(r.OptVals[o.opt], o.val)
		}
		if mal {
			r.Malformed = true
			r.Items = append(r.Items, Item{Kind: ItBad, Val: t, Tok: i, NTok: 1})
			i++
			continue
		}
		i += used
	}
	return r
}

func containsEq(t string) bool {
	for i := 0; i < len(t); i++ {
		if t[i] == '=' {
			return true
		}
	}
	return false
}
