// Package ref holds the reference models the checks judge against. It imports
// nothing from jawher/mow.cli: everything here is written from the
// documentation (doc.go / README) and from the property statements.
package ref

import "fmt"

// Hook behaviours.
const (
	HAbsent = iota
	HReturns
	HPanics
	HExits
	HFaults // the hook dies of a genuine runtime error (nil map write); treated like any other panic value
)

// How a run ends.
const (
	EndReturn = iota // Run returns nil, the process-exit function is never called
	EndExit          // the process-exit function is called exactly once, Run does not return
	EndPanic         // Run panics with the value raised by hook By
)

type FlowExpect struct {
	Log []string // hook invocations, in order
	End int
	By  int // index of the hook whose raised value decides the end (-1: none)
}

func (e FlowExpect) EndName() string {
	return []string{"return-nil", "exit", "panic"}[e.End]
}

// Flow is the documented execution flow of interceptors for a path of depth d
// (app -> c1 -> ... -> cd). vec has 2d+3 entries: Before of levels 0..d, the
// Action of level d, After of levels d..0.
//
//	Befores run root to leaf until one fails; the Action runs iff none failed;
//	the Afters of exactly the levels whose Before completed run leaf to root,
//	whatever happens meanwhile; the most recently raised value decides the end.
func Flow(d int, vec []int) FlowExpect {
	e := FlowExpect{By: -1}
	raise := func(i int) { e.By = i }
	call := func(i int, name string) bool { // returns false when the hook fails
		if vec[i] == HAbsent {
			return true
		}
		e.Log = append(e.Log, name)
		if vec[i] >= HPanics {
			raise(i)
			return false
		}
		return true
	}
	completed := -1 // deepest level whose Before completed
	ok := true
	for lvl := 0; lvl <= d; lvl++ {
		if !call(lvl, fmt.Sprintf("B%d", lvl)) {
			ok = false
			break
		}
		completed = lvl
	}
	if ok {
		call(d+1, "A")
	}
	for lvl := completed; lvl >= 0; lvl-- {
		call(d+2+(d-lvl), fmt.Sprintf("F%d", lvl))
	}
	switch {
	case e.By < 0:
		e.End = EndReturn
	case vec[e.By] == HExits:
		e.End = EndExit
	default:
		e.End = EndPanic
	}
	return e
}
