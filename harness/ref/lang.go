package ref

import (
	"fmt"
	"sort"
	"strings"
)

// ---------------------------------------------------------------- declarations

type OptDecl struct {
	Key   string   // canonical name used in bindings, e.g. "a"
	Names []string // with dashes, e.g. "-a", "--aa"
	Flag  bool     // true: boolean flag, false: takes a value
}

type Decl struct {
	Name string // "std", "alt", "num", "sub": how a replayable case names it
	// Nested: the harness declares the program on a sub-command named `sub` and prefixes every command line with that
	// name (the reference ignores this: a sub-command's own tokens are judged like a root command's)
	Nested bool
	Opts []OptDecl
	Args []string
}

func (d *Decl) NC() int { return len(d.Opts) + len(d.Args) }

func (d *Decl) optByName(n string) int {
	for i := range d.Opts {
		for _, x := range d.Opts[i].Names {
			if x == n {
				return i
			}
		}
	}
	return -1
}

func (d *Decl) argIdx(n string) int {
	for i, a := range d.Args {
		if a == n {
			return len(d.Opts) + i
		}
	}
	return -1
}

// groupLabel is the abstract letter of an option group: kind + the first name of each member
// without one leading dash (the form in which the library's group matcher prints itself).
func (d *Decl) groupLabel(g []int) string {
	l := "g:-"
	for _, i := range g {
		l += strings.TrimPrefix(d.Opts[i].Names[0], "-")
	}
	return l
}

func (d *Decl) ContainerName(i int) string {
	if i < len(d.Opts) {
		return d.Opts[i].Key
	}
	return d.Args[i-len(d.Opts)]
}

// Std is the declared program of DESIGN.md 4.1.
func Std() *Decl {
	return &Decl{
		Name: "std",
		Opts: []OptDecl{
			{Key: "a", Names: []string{"-a", "--aa"}, Flag: true},
			{Key: "b", Names: []string{"-b", "--bb"}, Flag: true},
			{Key: "o", Names: []string{"-o", "--out"}, Flag: false},
		},
		Args: []string{"X", "Y"},
	}
}

// Alt is a second declared program with less regular names: a flag whose LONG name is listed first, a flag
// with two short names, a valued option with three names.
func Alt() *Decl {
	return &Decl{
		Name: "alt",
		Opts: []OptDecl{
			{Key: "a", Names: []string{"--aa", "-a"}, Flag: true},
			{Key: "n", Names: []string{"-n", "-m"}, Flag: true},
			{Key: "o", Names: []string{"--out", "-o", "--output"}, Flag: false},
		},
		Args: []string{"X"},
	}
}

// Num is a third declared program: flags whose short name is a digit (legal; reachable through OPTIONS and a
// long name, the spec grammar has no digit short options; folded they read like a number: -46), flags i, n, f whose
// folded spelling -inf / -nf reads like a number, a long name that is a strict prefix of a later one (--nan,
// --nan-ok), next to a valued option.
func Num() *Decl {
	return &Decl{
		Name: "num",
		Opts: []OptDecl{
			{Key: "4", Names: []string{"-4", "--ipv4"}, Flag: true},
			{Key: "6", Names: []string{"-6"}, Flag: true},
			{Key: "i", Names: []string{"-i"}, Flag: true},
			{Key: "n", Names: []string{"-n", "--nan"}, Flag: true},
			// declared after --nan, its long name extends it: neither is an abbreviation of the other
			{Key: "f", Names: []string{"-f", "--nan-ok"}, Flag: true},
			{Key: "p", Names: []string{"-p", "--port"}, Flag: false},
		},
		Args: []string{"X"},
	}
}

// Val2 is a fourth declared program: TWO valued options next to a flag, so that a command line can carry two
// `-x VALUE` pairs (each option matcher removes a pair from the middle of the vector the other one also works on).
func Val2() *Decl {
	return &Decl{
		Name: "val2",
		Opts: []OptDecl{
			{Key: "p", Names: []string{"-p", "--pp"}, Flag: false},
			{Key: "o", Names: []string{"-o", "--out"}, Flag: false},
			{Key: "a", Names: []string{"-a", "--aa"}, Flag: true},
		},
		Args: []string{"X"},
	}
}

// DeclByName returns the declared program of a replayable case.
func DeclByName(n string) *Decl {
	if n == "val2" {
		return Val2()
	}
	if n == "alt" {
		return Alt()
	}
	if n == "num" {
		return Num()
	}
	if n == "sub" {
		d := Std()
		d.Name, d.Nested = "sub", true
		return d
	}
	return Std()
}

// ---------------------------------------------------------------- spec AST

const (
	NSeq = iota
	NAlt
	NOptional
	NRep
	NArg
	NOpt
	NGroup // folded group or OPTIONS: Group lists option indexes
	NEnd   // spec-level --
)

type Node struct {
	Op    int
	Kids  []*Node
	Idx   int   // container index for NArg / NOpt
	Group []int // option indexes for NGroup
	Text  string
}

func (n *Node) HasEnd() bool {
	if n.Op == NEnd {
		return true
	}
	for _, k := range n.Kids {
		if k.HasEnd() {
			return true
		}
	}
	return false
}

// String prints a canonical regular-expression form (used as term identity by
// the derivative construction, not as spec syntax).
func (n *Node) String() string {
	switch n.Op {
	case NSeq:
		var p []string
		for _, k := range n.Kids {
			p = append(p, k.String())
		}
		return "(" + strings.Join(p, " ") + ")"
	case NAlt:
		var p []string
		for _, k := range n.Kids {
			p = append(p, k.String())
		}
		return "(" + strings.Join(p, "|") + ")"
	case NOptional:
		return "[" + n.Kids[0].String() + "]"
	case NRep:
		return n.Kids[0].String() + "..."
	default:
		return n.Text
	}
}

// ---------------------------------------------------------------- spec parser (from the EBNF of the documentation)
//
//	spec   := seq
//	seq    := choice*
//	choice := atom ('|' atom)*
//	atom   := (ARG | OPTIONS | shortOpt [=<..>] | longOpt [=<..>] | optSeq | '(' seq+ ')' | '[' seq+ ']' | '--') ['...']

type specParser struct {
	d    *Decl
	toks []string
	p    int
}

func lexSpec(s string) ([]string, error) {
	var out []string
	i := 0
	for i < len(s) {
		c := s[i]
		switch {
		case c == ' ' || c == '\t':
			i++
		case strings.ContainsRune("[]()|", rune(c)):
			out = append(out, string(c))
			i++
		case c == '.':
			if !strings.HasPrefix(s[i:], "...") {
				return nil, fmt.Errorf("bad dots at %d", i)
			}
			out = append(out, "...")
			i += 3
		case c == '=':
			j := strings.IndexByte(s[i:], '>')
			if j < 0 || !strings.HasPrefix(s[i:], "=<") || j == 2 {
				return nil, fmt.Errorf("bad =<> at %d", i)
			}
			out = append(out, s[i:i+j+1])
			i += j + 1
		default:
			j := i
			for j < len(s) && !strings.ContainsRune(" \t[]()|.=", rune(s[j])) {
				j++
			}
			out = append(out, s[i:j])
			i = j
		}
	}
	return out, nil
}

// ParseSpec parses a well-formed spec string into the reference AST.
func ParseSpec(d *Decl, spec string) (*Node, error) {
	toks, err := lexSpec(spec)
	if err != nil {
		return nil, err
	}
	p := &specParser{d: d, toks: toks}
	n, err := p.seq()
	if err != nil {
		return nil, err
	}
	if p.p < len(p.toks) {
		return nil, fmt.Errorf("unexpected %q", p.toks[p.p])
	}
	return n, nil
}

func (p *specParser) peek() string {
	if p.p < len(p.toks) {
		return p.toks[p.p]
	}
	return ""
}

func (p *specParser) seq() (*Node, error) {
	n := &Node{Op: NSeq}
	for {
		t := p.peek()
		if t == "" || t == ")" || t == "]" || t == "|" || t == "..." {
			break
		}
		c, err := p.choice()
		if err != nil {
			return nil, err
		}
		n.Kids = append(n.Kids, c)
	}
	return n, nil
}

func (p *specParser) choice() (*Node, error) {
	a, err := p.atom()
	if err != nil {
		return nil, err
	}
	if p.peek() != "|" {
		return a, nil
	}
	n := &Node{Op: NAlt, Kids: []*Node{a}}
	for p.peek() == "|" {
		p.p++
		b, err := p.atom()
		if err != nil {
			return nil, err
		}
		n.Kids = append(n.Kids, b)
	}
	return n, nil
}

func (p *specParser) atom() (*Node, error) {
	t := p.peek()
	if t == "" {
		return nil, fmt.Errorf("unexpected end")
	}
	p.p++
	var n *Node
	switch {
	case t == "(" || t == "[":
		s, err := p.seq()
		if err != nil {
			return nil, err
		}
		if len(s.Kids) == 0 {
			return nil, fmt.Errorf("empty group")
		}
		closer := map[string]string{"(": ")", "[": "]"}[t]
		if p.peek() != closer {
			return nil, fmt.Errorf("expected %s", closer)
		}
		p.p++
		n = s
		if t == "[" {
			n = &Node{Op: NOptional, Kids: []*Node{s}}
		}
	case t == "--":
		return &Node{Op: NEnd, Text: "e:--"}, nil
	case t == "OPTIONS":
		g := &Node{Op: NGroup}
		for i := range p.d.Opts {
			g.Group = append(g.Group, i)
		}
		g.Text = p.d.groupLabel(g.Group)
		n = g
	case strings.HasPrefix(t, "--"):
		i := p.d.optByName(t)
		if i < 0 {
			return nil, fmt.Errorf("undeclared %s", t)
		}
		n = &Node{Op: NOpt, Idx: i, Text: "o:" + p.d.Opts[i].Names[0]}
		if strings.HasPrefix(p.peek(), "=<") {
			p.p++
		}
	case strings.HasPrefix(t, "-") && len(t) == 2:
		i := p.d.optByName(t)
		if i < 0 {
			return nil, fmt.Errorf("undeclared %s", t)
		}
		n = &Node{Op: NOpt, Idx: i, Text: "o:" + p.d.Opts[i].Names[0]}
		if strings.HasPrefix(p.peek(), "=<") {
			p.p++
		}
	case strings.HasPrefix(t, "-") && len(t) > 2:
		g := &Node{Op: NGroup}
		for k := 1; k < len(t); k++ {
			i := p.d.optByName("-" + t[k:k+1])
			if i < 0 {
				return nil, fmt.Errorf("undeclared -%s", t[k:k+1])
			}
			g.Group = append(g.Group, i)
		}
		g.Text = p.d.groupLabel(g.Group)
		n = g
	case t[0] >= 'A' && t[0] <= 'Z':
		i := p.d.argIdx(t)
		if i < 0 {
			return nil, fmt.Errorf("undeclared %s", t)
		}
		n = &Node{Op: NArg, Idx: i, Text: "a:" + t}
	default:
		return nil, fmt.Errorf("unexpected %q", t)
	}
	if p.peek() == "..." {
		p.p++
		n = &Node{Op: NRep, Kids: []*Node{n}}
	}
	return n, nil
}

// ---------------------------------------------------------------- reading an argument vector (DESIGN.md 4.2)

type occ struct {
	opt int
	val string
}

func positional(t string) bool { return !strings.HasPrefix(t, "-") || t == "-" }

// readToken reads the dash-prefixed token argv[i] (not "-", not "--").
func readToken(d *Decl, argv []string, i int) (occs []occ, used int, malformed bool) {
	t := argv[i]
	next := func() (string, bool) {
		if i+1 >= len(argv) || strings.HasPrefix(argv[i+1], "-") {
			return "", false
		}
		return argv[i+1], true
	}
	if strings.HasPrefix(t, "--") {
		name, val := t, ""
		hasEq := false
		if k := strings.IndexByte(t, '='); k >= 0 {
			name, val, hasEq = t[:k], t[k+1:], true
		}
		o := d.optByName(name)
		if o < 0 {
			return nil, 0, true
		}
		switch {
		case hasEq:
			if val == "" {
				return nil, 0, true
			}
			return []occ{{o, val}}, 1, false
		case d.Opts[o].Flag:
			return []occ{{o, "true"}}, 1, false
		default:
			v, ok := next()
			if !ok {
				return nil, 0, true
			}
			return []occ{{o, v}}, 2, false
		}
	}
	if len(t) >= 3 && t[2] == '=' {
		o := d.optByName(t[:2])
		if o < 0 || t[3:] == "" {
			return nil, 0, true
		}
		return []occ{{o, t[3:]}}, 1, false
	}
	rem := t[1:]
	for k := 0; k < len(rem); k++ {
		o := d.optByName("-" + rem[k:k+1])
		if o < 0 {
			return occs, 0, true
		}
		if d.Opts[o].Flag {
			occs = append(occs, occ{o, "true"})
			continue
		}
		val := rem[k+1:]
		if val == "" {
			v, ok := next()
			if !ok {
				return occs, 0, true
			}
			return append(occs, occ{o, v}), 2, false
		}
		return append(occs, occ{o, val}), 1, false
	}
	return occs, 1, false
}

// ---------------------------------------------------------------- denotational matcher (DESIGN.md 4.3, Appendix A)

const maxC = 8

type rstate struct {
	pos, runStart int8
	partial       bool
	bad, resid    bool
	ended         bool
	pend          string        // pending occurrences of the current run: (opt byte, value, 0x00)*
	bind          [maxC]string // per container: (value, 0x00)*
}

type Eval struct {
	D        *Decl
	Argv     []string
	HasEnd   bool // the spec contains a spec-level --
	GroupAny bool // documentation reading of groups: (-a|-b|..)... instead of maximal munch
	SawU1    bool
	SawU2    bool
	Progress bool // some atom consumed at least one token on some path
}

func pendHas(p string, opt int) (val string, rest string, ok bool) {
	i := 0
	for i < len(p) {
		j := i + 1 + strings.IndexByte(p[i+1:], 0)
		if int(p[i]) == opt {
			return p[i+1 : j], p[:i] + p[j+1:], true
		}
		i = j + 1
	}
	return "", p, false
}

func (e *Eval) norm(s rstate) rstate {
	n := len(e.Argv)
	if s.ended || s.pend != "" || s.bad || int(s.pos) == n {
		return s
	}
	t := e.Argv[s.pos]
	if t == "--" {
		s.pos++
		s.ended = true
		return s
	}
	if positional(t) {
		return s
	}
	s.runStart = s.pos
	s.partial = false
	var sb strings.Builder
	for int(s.pos) < n && e.Argv[s.pos] != "--" && !positional(e.Argv[s.pos]) {
		occs, used, mal := readToken(e.D, e.Argv, int(s.pos))
		for _, o := range occs {
			sb.WriteByte(byte(o.opt))
			sb.WriteString(o.val)
			sb.WriteByte(0)
		}
		if mal {
			s.bad = true
			s.resid = len(occs) > 0
			break
		}
		s.pos += int8(used)
	}
	s.pend = sb.String()
	return s
}

type stateSet map[rstate]struct{}

func (e *Eval) sem(n *Node, in stateSet) stateSet {
	switch n.Op {
	case NSeq:
		cur := in
		for _, k := range n.Kids {
			cur = e.sem(k, cur)
			if len(cur) == 0 {
				break
			}
		}
		return cur
	case NAlt:
		out := stateSet{}
		for _, k := range n.Kids {
			for s := range e.sem(k, in) {
				out[s] = struct{}{}
			}
		}
		return out
	case NOptional:
		out := stateSet{}
		for s := range in {
			out[s] = struct{}{}
		}
		for s := range e.sem(n.Kids[0], in) {
			out[s] = struct{}{}
		}
		return out
	case NRep:
		out := stateSet{}
		frontier := e.sem(n.Kids[0], in)
		for len(frontier) > 0 {
			next := stateSet{}
			for s := range frontier {
				if _, ok := out[s]; !ok {
					out[s] = struct{}{}
					next[s] = struct{}{}
				}
			}
			if len(next) == 0 {
				break
			}
			frontier = e.sem(n.Kids[0], next)
		}
		return out
	case NArg:
		out := stateSet{}
		for s := range in {
			if s.pend != "" || int(s.pos) >= len(e.Argv) {
				continue
			}
			if !s.ended && (s.bad || !positional(e.Argv[s.pos])) {
				continue
			}
			s.bind[n.Idx] += e.Argv[s.pos] + "\x00"
			s.pos++
			e.Progress = true
			out[e.norm(s)] = struct{}{}
		}
		return out
	case NOpt:
		out := stateSet{}
		for s := range in {
			if s.ended {
				continue
			}
			if s.bad && e.HasEnd {
				e.SawU2 = true
			}
			val, rest, ok := pendHas(s.pend, n.Idx)
			if !ok {
				continue
			}
			s.pend = rest
			s.partial = true
			s.bind[n.Idx] += val + "\x00"
			e.Progress = true
			out[e.norm(s)] = struct{}{}
		}
		return out
	case NGroup:
		out := stateSet{}
		for s := range in {
			if s.ended {
				continue
			}
			if s.bad && e.HasEnd {
				e.SawU2 = true
			}
			if e.GroupAny {
				// every non-empty selection of pending occurrences of the group's options (FIFO per option)
				seen := stateSet{}
				work := []rstate{s}
				for len(work) > 0 {
					cur := work[len(work)-1]
					work = work[:len(work)-1]
					for _, o := range n.Group {
						val, rest, ok := pendHas(cur.pend, o)
						if !ok {
							continue
						}
						nx := cur
						nx.pend = rest
						nx.partial = true
						nx.bind[o] += val + "\x00"
						if _, dup := seen[nx]; !dup {
							seen[nx] = struct{}{}
							work = append(work, nx)
						}
					}
				}
				for x := range seen {
					e.Progress = true
					out[e.norm(x)] = struct{}{}
				}
				continue
			}
			took := false
			for {
				progress := false
				for _, o := range n.Group {
					val, rest, ok := pendHas(s.pend, o)
					if ok {
						s.pend = rest
						s.bind[o] += val + "\x00"
						progress, took = true, true
					}
				}
				if !progress {
					break
				}
			}
			if !took {
				continue
			}
			s.partial = true
			e.Progress = true
			out[e.norm(s)] = struct{}{}
		}
		return out
	case NEnd:
		out := stateSet{}
		for s := range in {
			if s.ended {
				out[s] = struct{}{}
				continue
			}
			if (s.partial && (s.pend != "" || s.bad)) || (s.bad && s.resid) {
				e.SawU1 = true
				continue
			}
			if s.pend != "" {
				s.pos = s.runStart
			}
			s.ended = true
			s.pend = ""
			s.bad = false
			s.resid = false
			s.partial = false
			out[s] = struct{}{}
		}
		return out
	}
	panic("bad node")
}

// Result of evaluating one (spec, argv) pair.
type Verdict struct {
	Accept    bool     // some clean derivation accepts
	Unclaimed bool     // the verdict (or the bindings) hinge on an unclaimed situation (U1/U2)
	Binds     []string // canonical text of the bindings of every accepting derivation, sorted
	Consumed  bool     // some derivation consumed at least one token (non-triviality)
}

func (e *Eval) Run(spec *Node) Verdict {
	e.SawU1, e.SawU2, e.Progress = false, false, false
	e.HasEnd = spec.HasEnd()
	s0 := e.norm(rstate{})
	fin := e.sem(spec, stateSet{s0: {}})
	var v Verdict
	seen := map[string]bool{}
	for s := range fin {
		if int(s.pos) == len(e.Argv) && s.pend == "" && !s.bad {
			v.Accept = true
			b := e.BindText(s.bind)
			if !seen[b] {
				seen[b] = true
				v.Binds = append(v.Binds, b)
			}
		}
	}
	v.Consumed = e.Progress
	sort.Strings(v.Binds)
	v.Unclaimed = e.SawU1 || e.SawU2
	return v
}

// BindText renders bindings canonically: name=[v1,v2] per non-empty container, in declaration order.
func (e *Eval) BindText(b [maxC]string) string {
	var sb strings.Builder
	for i := 0; i < e.D.NC(); i++ {
		if b[i] == "" {
			continue
		}
		sb.WriteString(e.D.ContainerName(i))
		sb.WriteString("=[")
		sb.WriteString(strings.ReplaceAll(strings.TrimSuffix(b[i], "\x00"), "\x00", ","))
		sb.WriteString("] ")
	}
	return sb.String()
}

// BindTextOf renders observed per-container value lists in the same canonical form.
func BindTextOf(d *Decl, lists [][]string) string {
	var sb strings.Builder
	for i := 0; i < d.NC(); i++ {
		if len(lists[i]) == 0 {
			continue
		}
		sb.WriteString(d.ContainerName(i))
		sb.WriteString("=[")
		sb.WriteString(strings.Join(lists[i], ","))
		sb.WriteString("] ")
	}
	return sb.String()
}

// Optionalise returns a copy of the spec in which every single-option atom of an
// option in opts is optional (an environment value satisfies it); with groupsToo,
// every option group containing such an option is optional as well.
func Optionalise(n *Node, opts map[int]bool, groupsToo bool) *Node {
	switch n.Op {
	case NOpt:
		if opts[n.Idx] {
			return &Node{Op: NOptional, Kids: []*Node{n}}
		}
		return n
	case NGroup:
		if groupsToo {
			for _, o := range n.Group {
				if opts[o] {
					return &Node{Op: NOptional, Kids: []*Node{n}}
				}
			}
		}
		return n
	case NArg, NEnd:
		return n
	}
	c := &Node{Op: n.Op, Idx: n.Idx, Text: n.Text}
	for _, k := range n.Kids {
		c.Kids = append(c.Kids, Optionalise(k, opts, groupsToo))
	}
	return c
}
