package ref

import "strings"

// Reference for C08: which strings are well-formed specs, and where the first
// offending lexeme of an ill-formed one lies. Three independent pieces:
//
//   - a leftmost-longest tokenizer implementing the lexical conventions of
//     DESIGN.md 4.5;
//   - a generic Earley recogniser driven by the EBNF given as data (its chart
//     yields the first token at which the prefix stops being viable);
//   - the two context conditions (declared names; no option after `--`).

type STok struct {
	Kind string // ARG OPTIONS SHORT LONG FOLD VAL REP DDASH ( ) [ ] |
	Text string // source text
	Pos  int
}

type SpecVerdict struct {
	OK     bool
	Tokens []STok
	// for !OK: the span [Lo,Hi] (Hi = one past the last byte of the offending lexeme) in which the
	// reported position must lie, and what is wrong
	Lo, Hi int
	Why    string
}

func isLetterB(c byte) bool { return (c >= 'a' && c <= 'z') || (c >= 'A' && c <= 'Z') }
func isDigitB(c byte) bool  { return c >= '0' && c <= '9' }
func isUpperB(c byte) bool  { return c >= 'A' && c <= 'Z' }

// LexSpec tokenizes s; on a lexical error it returns ok=false and the offending span.
func LexSpec(s string) (toks []STok, ok bool, lo, hi int, why string) {
	n := len(s)
	i := 0
	for i < n {
		c := s[i]
		switch {
		case c == ' ' || c == '\t':
			i++
		case c == '[' || c == ']' || c == '(' || c == ')' || c == '|':
			toks = append(toks, STok{string(c), string(c), i})
			i++
		case c == '.':
			j := i
			for j < n && s[j] == '.' && j-i < 3 {
				j++
			}
			if j-i < 3 {
				return nil, false, i, j, "fewer than three dots"
			}
			toks = append(toks, STok{"REP", "...", i})
			i += 3
		case c == '-':
			switch {
			case i+1 < n && isLetterB(s[i+1]):
				j := i + 1
				for j < n && isLetterB(s[j]) {
					j++
				}
				if j < n && s[j] == '-' {
					return nil, false, i, j + 1, "dash directly after an option name"
				}
				if j-i == 2 {
					toks = append(toks, STok{"SHORT", s[i:j], i})
				} else {
					toks = append(toks, STok{"FOLD", s[i:j], i})
				}
				i = j
			case i+1 < n && s[i+1] == '-':
				if i+2 == n || s[i+2] == ' ' {
					toks = append(toks, STok{"DDASH", "--", i})
					i += 2
					continue
				}
				j := i + 2
				for j < n && (isLetterB(s[j]) || isDigitB(s[j]) || s[j] == '_' || (j > i+2 && s[j] == '-')) {
					j++
				}
				if j == i+2 {
					return nil, false, i, i + 3, "-- followed by neither a blank nor a name"
				}
				toks = append(toks, STok{"LONG", s[i:j], i})
				i = j
			default:
				hi := i + 2
				if hi > n {
					hi = n
				}
				return nil, false, i, hi, "dangling dash"
			}
		case c == '=':
			if i+1 >= n || s[i+1] != '<' {
				hi := i + 2
				if hi > n {
					hi = n
				}
				return nil, false, i, hi, "= not followed by <"
			}
			j := strings.IndexByte(s[i:], '>')
			if j < 0 {
				return nil, false, i, n, "unclosed =<"
			}
			if j == 2 {
				return nil, false, i, n, "empty =<>"
			}
			toks = append(toks, STok{"VAL", s[i : i+j+1], i})
			i += j + 1
		case isUpperB(c):
			j := i + 1
			for j < n && (isUpperB(s[j]) || isDigitB(s[j]) || s[j] == '_') {
				j++
			}
			k := "ARG"
			if s[i:j] == "OPTIONS" {
				k = "OPTIONS"
			}
			toks = append(toks, STok{k, s[i:j], i})
			i = j
		default:
			return nil, false, i, i + 1, "illegal byte"
		}
	}
	return toks, true, 0, 0, ""
}

// ---- Earley recogniser over token kinds

type rule struct {
	lhs string
	rhs []string
}

var specGrammar = []rule{
	{"S", []string{"Seq"}},
	{"Seq", nil},
	{"Seq", []string{"Choice", "Seq"}},
	{"Seq1", []string{"Choice", "Seq"}},
	{"Choice", []string{"Atom"}},
	{"Choice", []string{"Atom", "|", "Choice"}},
	{"Atom", []string{"Body"}},
	{"Atom", []string{"Body", "REP"}},
	{"Atom", []string{"DDASH"}},
	{"Body", []string{"ARG"}},
	{"Body", []string{"OPTIONS"}},
	{"Body", []string{"SHORT"}},
	{"Body", []string{"SHORT", "VAL"}},
	{"Body", []string{"LONG"}},
	{"Body", []string{"LONG", "VAL"}},
	{"Body", []string{"FOLD"}},
	{"Body", []string{"(", "Seq1", ")"}},
	{"Body", []string{"[", "Seq1", "]"}},
}

var specNonterm = map[string]bool{"S": true, "Seq": true, "Seq1": true, "Choice": true, "Atom": true, "Body": true}
var specNullable = map[string]bool{"S": true, "Seq": true}

type eitem struct{ rule, dot, origin int }

// earley returns (accepted, index of the first token at which the prefix is no longer viable; len(kinds) when the
// whole input is a viable prefix).
func earley(kinds []string) (bool, int) {
	n := len(kinds)
	chart := make([][]eitem, n+1)
	inSet := make([]map[eitem]bool, n+1)
	for i := range inSet {
		inSet[i] = map[eitem]bool{}
	}
	add := func(k int, it eitem) {
		if !inSet[k][it] {
			inSet[k][it] = true
			chart[k] = append(chart[k], it)
		}
	}
	for ri, r := range specGrammar {
		if r.lhs == "S" {
			add(0, eitem{ri, 0, 0})
		}
	}
	for k := 0; k <= n; k++ {
		for i := 0; i < len(chart[k]); i++ {
			it := chart[k][i]
			r := specGrammar[it.rule]
			if it.dot < len(r.rhs) {
				sym := r.rhs[it.dot]
				if specNonterm[sym] {
					for ri, r2 := range specGrammar {
						if r2.lhs == sym {
							add(k, eitem{ri, 0, k})
						}
					}
					if specNullable[sym] {
						add(k, eitem{it.rule, it.dot + 1, it.origin})
					}
				} else if k < n && kinds[k] == sym {
					add(k+1, eitem{it.rule, it.dot + 1, it.origin})
				}
			} else {
				for _, p := range chart[it.origin] {
					pr := specGrammar[p.rule]
					if p.dot < len(pr.rhs) && pr.rhs[p.dot] == r.lhs {
						add(k, eitem{p.rule, p.dot + 1, p.origin})
					}
				}
			}
		}
		if k < n && len(chart[k+1]) == 0 {
			return false, k
		}
	}
	for _, it := range chart[n] {
		r := specGrammar[it.rule]
		if r.lhs == "S" && it.dot == len(r.rhs) && it.origin == 0 {
			return true, n
		}
	}
	return false, n
}

// CheckSpec decides well-formedness of s against a set of declared option names (with dashes) and argument names.
func CheckSpec(s string, opts map[string]bool, args map[string]bool) SpecVerdict {
	toks, ok, lo, hi, why := LexSpec(s)
	if !ok {
		return SpecVerdict{OK: false, Lo: lo, Hi: hi, Why: "lexical: " + why}
	}
	kinds := make([]string, len(toks))
	for i, t := range toks {
		kinds[i] = t.Kind
	}
	acc, syn := earley(kinds)
	// context conditions: first offending token
	ctx := len(toks) + 1
	ctxWhy := ""
	ended := false
	for i, t := range toks {
		bad := ""
		switch t.Kind {
		case "DDASH":
			ended = true
		case "ARG":
			if !args[t.Text] {
				bad = "undeclared argument"
			}
		case "SHORT", "LONG":
			if ended {
				bad = "option after --"
			} else if !opts[t.Text] {
				bad = "undeclared option"
			}
		case "FOLD":
			if ended {
				bad = "option after --"
			} else {
				for k := 1; k < len(t.Text); k++ {
					if !opts["-"+t.Text[k:k+1]] {
						bad = "undeclared option in fold"
					}
				}
			}
		case "OPTIONS":
			if ended {
				bad = "option after --"
			}
		}
		if bad != "" {
			ctx, ctxWhy = i, bad
			break
		}
	}
	if acc && ctx > len(toks) {
		return SpecVerdict{OK: true, Tokens: toks}
	}
	first := syn
	why = "syntax"
	if !acc && syn == len(toks) {
		why = "syntax: premature end"
	}
	if acc {
		first = len(toks) + 1
	}
	if ctx < first || (ctx == first && ctx < len(toks)) {
		first, why = ctx, "context: "+ctxWhy
	}
	v := SpecVerdict{OK: false, Tokens: toks, Why: why}
	if first >= len(toks) {
		v.Lo, v.Hi = len(s), len(s)
	} else {
		v.Lo, v.Hi = toks[first].Pos, toks[first].Pos+len(toks[first].Text)
	}
	return v
}
