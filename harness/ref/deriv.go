package ref

import (
	"sort"
	"strings"
)

// Structural layer of C01: the language of a spec over abstract letters (one
// letter = what one matcher consumes: "o:-a" a single option atom, "g:-ab" an
// option group, "a:X" an argument, "e:--" the spec-level end of options),
// computed by Antimirov partial derivatives from the spec's AST, compared with
// the automaton the library compiled, by breadth-first search over the product
// of the two subset automata. Decides language equality for words of
// unbounded length.

// NFA is the compiled automaton as read back from the library.
type NFA struct {
	Terminal []bool
	Edges    [][]Edge // per state
}

type Edge struct {
	Label string // "" = shortcut (epsilon) left over after Prepare
	To    int
}

func (n *Node) nullable() bool {
	switch n.Op {
	case NSeq:
		for _, k := range n.Kids {
			if !k.nullable() {
				return false
			}
		}
		return true
	case NAlt:
		for _, k := range n.Kids {
			if k.nullable() {
				return true
			}
		}
		return false
	case NOptional:
		return true
	case NRep:
		return n.Kids[0].nullable()
	}
	return false
}

func seqOf(parts ...*Node) *Node {
	var kids []*Node
	for _, p := range parts {
		if p.Op == NSeq {
			kids = append(kids, p.Kids...)
		} else {
			kids = append(kids, p)
		}
	}
	if len(kids) == 1 {
		return kids[0]
	}
	return &Node{Op: NSeq, Kids: kids}
}

var epsilon = &Node{Op: NSeq}

// pderiv returns the set of partial derivatives of n by letter a.
func pderiv(n *Node, a string) []*Node {
	switch n.Op {
	case NSeq:
		var out []*Node
		for i, k := range n.Kids {
			rest := &Node{Op: NSeq, Kids: n.Kids[i+1:]}
			for _, dk := range pderiv(k, a) {
				out = append(out, seqOf(dk, rest))
			}
			if !k.nullable() {
				break
			}
		}
		return out
	case NAlt:
		var out []*Node
		for _, k := range n.Kids {
			out = append(out, pderiv(k, a)...)
		}
		return out
	case NOptional:
		return pderiv(n.Kids[0], a)
	case NRep:
		var out []*Node
		again := &Node{Op: NOptional, Kids: []*Node{n}}
		for _, dk := range pderiv(n.Kids[0], a) {
			out = append(out, seqOf(dk, again))
		}
		return out
	default:
		if n.Text == a {
			return []*Node{epsilon}
		}
		return nil
	}
}

// Letters returns the abstract alphabet of a spec.
func (n *Node) Letters() []string {
	seen := map[string]bool{}
	var out []string
	var walk func(n *Node)
	walk = func(n *Node) {
		if len(n.Kids) == 0 && n.Op >= NArg {
			if !seen[n.Text] {
				seen[n.Text] = true
				out = append(out, n.Text)
			}
		}
		for _, k := range n.Kids {
			walk(k)
		}
	}
	walk(n)
	sort.Strings(out)
	return out
}

type EquivResult struct {
	Equal       bool
	Word        []string // shortest distinguishing word (abstract letters)
	ImplAccepts bool     // whether the compiled automaton accepts Word
	States      int      // product states visited
	Transitions int      // product transitions followed
	ForeignEdge string   // a label of the compiled automaton that is not a letter of the spec
}

func (nfa *NFA) closure(set []int) []int {
	seen := map[int]bool{}
	var st []int
	for _, s := range set {
		if !seen[s] {
			seen[s] = true
			st = append(st, s)
		}
	}
	for i := 0; i < len(st); i++ {
		for _, e := range nfa.Edges[st[i]] {
			if e.Label == "" && !seen[e.To] {
				seen[e.To] = true
				st = append(st, e.To)
			}
		}
	}
	sort.Ints(st)
	return st
}

// Equivalent compares the compiled automaton (start state 0) with the spec.
func Equivalent(nfa *NFA, spec *Node) EquivResult {
	letters := spec.Letters()
	isLetter := map[string]bool{}
	for _, l := range letters {
		isLetter[l] = true
	}
	res := EquivResult{Equal: true}
	for _, es := range nfa.Edges {
		for _, e := range es {
			if e.Label != "" && !isLetter[e.Label] {
				res.ForeignEdge = e.Label
			}
		}
	}
	type pstate struct {
		impl  []int
		terms map[string]*Node
		word  []string
	}
	keyOf := func(p *pstate) string {
		var sb strings.Builder
		for _, i := range p.impl {
			sb.WriteString(itoa(i))
			sb.WriteByte(',')
		}
		sb.WriteByte('|')
		ts := make([]string, 0, len(p.terms))
		for t := range p.terms {
			ts = append(ts, t)
		}
		sort.Strings(ts)
		sb.WriteString(strings.Join(ts, ";"))
		return sb.String()
	}
	start := &pstate{impl: nfa.closure([]int{0}), terms: map[string]*Node{spec.String(): spec}}
	seen := map[string]bool{keyOf(start): true}
	queue := []*pstate{start}
	for len(queue) > 0 {
		p := queue[0]
		queue = queue[1:]
		res.States++
		implAcc := false
		for _, s := range p.impl {
			if nfa.Terminal[s] {
				implAcc = true
			}
		}
		refAcc := false
		for _, t := range p.terms {
			if t.nullable() {
				refAcc = true
			}
		}
		if implAcc != refAcc {
			res.Equal = false
			res.Word = p.word
			res.ImplAccepts = implAcc
			return res
		}
		for _, a := range letters {
			var nimpl []int
			for _, s := range p.impl {
				for _, e := range nfa.Edges[s] {
					if e.Label == a {
						nimpl = append(nimpl, e.To)
					}
				}
			}
			nimpl = nfa.closure(nimpl)
			nterms := map[string]*Node{}
			for _, t := range p.terms {
				for _, dt := range pderiv(t, a) {
					nterms[dt.String()] = dt
				}
			}
			if len(nimpl) == 0 && len(nterms) == 0 {
				continue
			}
			res.Transitions++
			q := &pstate{impl: nimpl, terms: nterms, word: append(append([]string{}, p.word...), a)}
			k := keyOf(q)
			if !seen[k] {
				seen[k] = true
				queue = append(queue, q)
			}
		}
	}
	return res
}

func itoa(i int) string {
	if i == 0 {
		return "0"
	}
	var b [12]byte
	p := len(b)
	for i > 0 {
		p--
		b[p] = byte('0' + i%10)
		i /= 10
	}
	return string(b[p:])
}

// Concretise turns an abstract word into an argument vector (one spelling per letter).
func Concretise(d *Decl, word []string, variant int) []string {
	var out []string
	for k, l := range word {
		switch l[0] {
		case 'a':
			out = append(out, []string{"x", "v"}[(k+variant)%2])
		case 'e':
			// spec-level: no token
		case 'o', 'g':
			name := l[2:]
			var o *OptDecl
			if l[0] == 'o' {
				o = &d.Opts[d.optByName(name)]
			} else {
				o = &d.Opts[d.optByName("-"+name[1+(k+variant)%(len(name)-1):][:1])]
			}
			sp := o.Names[(k+variant)%len(o.Names)]
			if o.Flag {
				out = append(out, sp)
			} else if strings.HasPrefix(sp, "--") {
				out = append(out, sp+"=v")
			} else {
				out = append(out, sp+"v")
			}
		}
	}
	return out
}
