//go:build verif

package main

import (
	"errors"
	"flag"
	"fmt"
	"strings"

	cli "github.com/jawher/mow.cli"
	"github.com/jawher/mow.cli/internal/zverif/ref"
)

// C05: every assignment of {absent, returns, panics, Exit(n)} to every
// Before/Action/After along a path of depth d, against ref.Flow.

func init() {
	register(&CheckDef{Name: "flow", Props: []string{"C05"}, Run: runFlow, Replay: replayFlow})
}

var flowPolicies = []flag.ErrorHandling{flag.ContinueOnError, flag.ExitOnError, flag.PanicOnError}

func runFlow(c *Ctx) {
	maxd := 3
	if c.Thorough() {
		maxd = 5
	}
	idx := 0
	for d := 0; d <= maxd; d++ {
		n := 2*d + 3
		vec := make([]int, n)
		base := 4
		if d <= 2 || (c.Thorough() && d <= 3) {
			base = 5 // also: the hook dies of a runtime error
		}
		total := 1
		for i := 0; i < n; i++ {
			total *= base
		}
		pols := 3
		if d > 2 {
			pols = 1 // policy crossing only at d <= 2
		}
		for v := 0; v < total; v++ {
			x := v
			for i := 0; i < n; i++ {
				vec[i] = x % base
				x /= base
			}
			if vec[d+1] == ref.HAbsent { // an absent Action on the addressed command is outside C05
				continue
			}
			for p := 0; p < pols; p++ {
				idx++
				if !c.Mine(idx) {
					continue
				}
				oneFlow(c, d, vec, p, 0)
				if d <= 2 {
					// the status passed to Exit is irrelevant to the flow: 0, negative and > 255 behave like any other
					hasExit := false
					for _, b := range vec {
						hasExit = hasExit || b == ref.HExits
					}
					if hasExit {
						for xk := 1; xk < len(exitKinds); xk++ {
							oneFlowX(c, d, vec, p, 0, xk)
						}
					}
				}
				if d <= 2 && p == 0 {
					// the kind of value a panicking hook raises is irrelevant: it is re-raised unchanged
					hasPanic := false
					for _, b := range vec {
						hasPanic = hasPanic || b == ref.HPanics
					}
					if hasPanic {
						for pk := 1; pk < len(panicKinds); pk++ {
							oneFlow(c, d, vec, p, pk)
						}
					}
				}
			}
		}
	}
}

func replayFlow(c *Ctx, cs Case) {
	var vec []int
	for _, x := range cs["vec"].([]interface{}) {
		vec = append(vec, int(x.(float64)))
	}
	oneFlowX(c, cInt(cs, "depth"), vec, cInt(cs, "policy"), cInt(cs, "panic_kind"), cInt(cs, "exit_kind"))
}

// codedErr is a user error type that happens to expose the methods of several exit-code conventions; a hook panicking
// with it is an ordinary panic, not a cli.Exit.
type codedErr struct{ name string }

func (e *codedErr) Error() string {
	if e == nil {
		return "coded-nil"
	}
	return "coded-" + e.name
}
func (e *codedErr) ExitCode() int   { return 3 }
func (e *codedErr) ExitStatus() int { return 3 }
func (e *codedErr) Code() int       { return 3 }

var panicKinds = []string{"error value", "user error type with ExitCode()/ExitStatus()/Code() methods", "int", "string", "nil-pointer of a user error type",
	// panic(nil): under the language version of the library's go.mod recover() returns nil for it, so a library can
	// legitimately take the hook for one that returned, or (with a completed-flag) for one that failed; judged
	// weakly: the calls are those of one of these two readings, in order, each hook at most once
	"untyped nil"}

func panicValue(kind int, i int, name string) interface{} {
	switch kind {
	case 1:
		return &codedErr{name}
	case 2:
		return 10 + i
	case 3:
		return "boom-" + name
	case 4:
		return (*codedErr)(nil)
	}
	return errors.New("boom-" + name)
}

// exitKinds: the status a hook passes to cli.Exit. Kind 0 gives every hook its own status (so the oracle can tell
// whose Exit won); the others give all hooks the same unusual status: 0 (an Exit like any other: the remaining hooks
// are skipped, the Afters run once, the process-exit function is called with 0), a negative one and one above 255.
var exitKinds = []string{"10+hook index", "0", "-1", "256"}

func exitCode(xk, i int) int {
	switch xk {
	case 1:
		return 0
	case 2:
		return -1
	case 3:
		return 256
	}
	return 10 + i
}

func oneFlow(c *Ctx, d int, vec []int, pol int, pk int) { oneFlowX(c, d, vec, pol, pk, 0) }

func oneFlowX(c *Ctx, d int, vec []int, pol int, pk int, xk int) {
	if !c.Begin("flow", fmt.Sprint(d), fmt.Sprint(vec), fmt.Sprint(pol), fmt.Sprint(pk), fmt.Sprint(xk)) {
		return
	}
	// hook i: 0..d = Before of level i; d+1 = Action; d+2+j = After of level d-j
	n := 2*d + 3
	var log []string
	vals := make([]interface{}, n)
	names := make([]string, n)
	for i := 0; i <= d; i++ {
		names[i] = fmt.Sprintf("B%d", i)
		names[d+2+i] = fmt.Sprintf("F%d", d-i)
	}
	names[d+1] = "A"
	// hooks created for the second Run on the same instance log their name with a trailing ' : a Run uses the hooks
	// the commands hold at that time, not the ones of an earlier Run
	gen := 1
	mk := func(i int) func() {
		name := names[i]
		if gen == 2 {
			name += "'"
		}
		switch vec[i] {
		case ref.HAbsent:
			return nil
		case ref.HReturns:
			return func() { log = append(log, name) }
		case ref.HPanics:
			if pk == 5 {
				return func() { log = append(log, name); panic(nil) }
			}
			vals[i] = panicValue(pk, i, names[i])
			return func() { log = append(log, name); panic(vals[i]) }
		case ref.HFaults:
			return func() {
				log = append(log, name)
				defer func() { vals[i] = recover(); panic(vals[i]) }() // remember the exact runtime.Error, raise it again
				var m map[string]int
				m[names[i]] = 1
			}
		default:
			return func() { log = append(log, name); cli.Exit(exitCode(xk, i)) }
		}
	}
	app := cli.App("app", "")
	app.ErrorHandling = flowPolicies[pol]
	var build func(cmd *cli.Cmd, lvl int)
	build = func(cmd *cli.Cmd, lvl int) {
		cmd.Before = mk(lvl)
		cmd.After = mk(d + 2 + (d - lvl))
		if lvl == d {
			cmd.Action = mk(d + 1)
			return
		}
		cmd.Command(fmt.Sprintf("c%d", lvl+1), "", func(sub *cli.Cmd) { build(sub, lvl+1) })
	}
	build(app.Cmd, 0)
	argv := []string{"app"}
	for i := 1; i <= d; i++ {
		argv = append(argv, fmt.Sprintf("c%d", i))
	}
	o := runIsolated(func() error { return app.Run(argv) })
	if d <= 1 && cap(log) >= 0 {
		// the same instance once more: the flow is rebuilt per Run and must behave identically
		// (sub-commands of this chain declare nothing, so they can be initialised again)
		first := strings.Join(log, " ")
		log = nil
		// the application assigns fresh hooks before running again (sub-command initializers do so by themselves)
		gen = 2
		app.Before, app.After = mk(0), mk(2*d+2)
		if d == 0 {
			app.Action = mk(d + 1)
		}
		o2 := runIsolated(func() error { return app.Run(argv) })
		c.Count("second_runs_on_same_instance", 1)
		stale := false
		for i, e := range log {
			if !strings.HasSuffix(e, "'") {
				stale = true
			}
			log[i] = strings.TrimSuffix(e, "'")
		}
		if stale && c.On("C05") {
			c.Violation("C05", fmt.Sprintf("flow depth=%d vec=%s policy=%d%s (second Run on the same instance, hooks re-assigned before it)", d, describeVec(names, vec), pol, pkText(pk)+xkText(xk)),
				Case{"depth": d, "vec": append([]int{}, vec...), "policy": pol, "panic_kind": pk, "exit_kind": xk}, "the second Run calls the hooks assigned for it", "it called hooks of the first Run: "+strings.Join(log, " "))
		}
		if strings.Join(log, " ") != first || o2.Returned != o.Returned || o2.Panicked != o.Panicked || fmt.Sprint(o2.Exits) != fmt.Sprint(o.Exits) {
			if c.On("C05") {
				c.Violation("C05", fmt.Sprintf("flow depth=%d vec=%s policy=%d%s (second Run on the same instance)", d, describeVec(names, vec), pol, pkText(pk)+xkText(xk)),
					Case{"depth": d, "vec": append([]int{}, vec...), "policy": pol, "panic_kind": pk, "exit_kind": xk}, fmt.Sprintf("as the first run: calls=[%s] returned=%v panicked=%v exits=%v", first, o.Returned, o.Panicked, o.Exits),
					fmt.Sprintf("calls=[%s] returned=%v panicked=%v exits=%v", strings.Join(log, " "), o2.Returned, o2.Panicked, o2.Exits))
			}
		}
		o = o2
	}

	exp := ref.Flow(d, vec)
	c.Count("evaluations", 1)
	fails := 0
	for _, v := range vec {
		if v >= ref.HPanics {
			fails++
		}
	}
	if fails > 0 {
		c.Count("nontrivial", 1)
	}
	if fails >= 2 {
		c.Count("vectors_with_2plus_failures", 1)
	}
	c.Count(fmt.Sprintf("depth_%d", d), 1)

	if pk == 5 {
		asReturns := append([]int{}, vec...)
		for i, v := range asReturns {
			if v == ref.HPanics {
				asReturns[i] = ref.HReturns
			}
		}
		expB := ref.Flow(d, asReturns)
		got := strings.Join(log, " ")
		if got != strings.Join(exp.Log, " ") && got != strings.Join(expB.Log, " ") && c.On("C05") {
			c.Violation("C05", fmt.Sprintf("flow depth=%d vec=%s policy=%d%s", d, describeVec(names, vec), pol, pkText(pk)+xkText(xk)),
				Case{"depth": d, "vec": append([]int{}, vec...), "policy": pol, "panic_kind": pk, "exit_kind": xk},
				fmt.Sprintf("calls=[%s] (panic(nil) taken as a failure) or calls=[%s] (taken as a return), each hook at most once", strings.Join(exp.Log, " "), strings.Join(expB.Log, " ")),
				fmt.Sprintf("calls=[%s]", got))
		}
		return
	}
	var bad []string
	if strings.Join(log, " ") != strings.Join(exp.Log, " ") {
		bad = append(bad, "hook order")
	}
	obsEnd := ""
	switch {
	case exp.End == ref.EndReturn:
		if !(o.Returned && o.Err == nil && len(o.Exits) == 0 && !o.Panicked) {
			bad = append(bad, "end")
		}
	case exp.End == ref.EndExit:
		if !(len(o.Exits) == 1 && o.Exits[0] == exitCode(xk, exp.By) && !o.Returned && !o.Panicked) {
			bad = append(bad, "end")
		}
	case exp.End == ref.EndPanic:
		if !(o.Panicked && o.PanicVal == vals[exp.By] && vals[exp.By] != nil && len(o.Exits) == 0 && !o.Returned) {
			bad = append(bad, "end")
		}
	}
	obsEnd = fmt.Sprintf("returned=%v err=%v exits=%v panicked=%v panicval=%v", o.Returned, o.Err, o.Exits, o.Panicked, o.PanicVal)
	cs := Case{"depth": d, "vec": append([]int{}, vec...), "policy": pol, "hooks": names, "panic_kind": pk, "panic_value": panicKinds[pk], "exit_kind": xk, "exit_status": exitKinds[xk]}
	if c.WantSample(fmt.Sprintf("depth%d", d)) && fails > 0 {
		c.Sample(fmt.Sprintf("depth%d", d), Case{"depth": d, "vector": describeVec(names, vec), "policy": pol, "observed_calls": strings.Join(log, " "), "observed_end": obsEnd})
	}
	if len(bad) > 0 && c.On("C05") {
		c.Violation("C05", fmt.Sprintf("flow depth=%d vec=%s policy=%d%s", d, describeVec(names, vec), pol, pkText(pk)+xkText(xk)), cs,
			fmt.Sprintf("calls=[%s] end=%s by=%s", strings.Join(exp.Log, " "), exp.EndName(), hookName(names, exp.By)),
			fmt.Sprintf("calls=[%s] %s (mismatch: %s)", strings.Join(log, " "), obsEnd, strings.Join(bad, ",")))
	}
}

func pkText(pk int) string {
	if pk == 0 {
		return ""
	}
	return " panic-value=" + panicKinds[pk]
}

func xkText(xk int) string {
	if xk == 0 {
		return ""
	}
	return " exit-status=" + exitKinds[xk]
}

func hookName(names []string, i int) string {
	if i < 0 || i >= len(names) {
		return "-"
	}
	return names[i]
}

func describeVec(names []string, vec []int) string {
	var sb strings.Builder
	for i, v := range vec {
		if i > 0 {
			sb.WriteByte(' ')
		}
		sb.WriteString(names[i])
		sb.WriteByte('=')
		sb.WriteString([]string{"absent", "returns", "panics", "exit", "runtime-error"}[v])
	}
	return sb.String()
}
