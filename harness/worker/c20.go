//go:build verif

package main

import (
	"bytes"
	"encoding/json"
	"flag"
	"fmt"
	"os"
	"os/exec"
	"regexp"
	"runtime"
	"strings"
	"sync"

	cli "github.com/jawher/mow.cli"
	"github.com/jawher/mow.cli/internal/zverif/ref"
	"github.com/jawher/mow.cli/internal/zverif/vsched"
)

// C20: applications are independent and deterministic.
//
//	mode=hist   every ordered sequence of <= 3 templates is built-and-run in ONE fresh process; every
//	            outcome must equal that template's outcome alone in a fresh process
//	mode=sched  2-3 templates run as cooperative threads over the INSTRUMENTED library; all schedules up
//	            to a preemption bound are enumerated; every thread's outcome must equal its solo outcome
//	mode=race   the same bodies, free-running in 16 goroutines under the race detector

func init() {
	register(&CheckDef{Name: "indep", Props: []string{"C20"}, Run: runIndep, Replay: replayIndep})
}

// ---- the exit stub of this check is thread-aware

type c20IO struct {
	mu    sync.Mutex
	buf   bytes.Buffer
	exits map[int][]int         // by scheduler thread (or -1)
	perT  map[int]*bytes.Buffer // under the scheduler: what each thread wrote
}

func (w *c20IO) Write(p []byte) (int, error) {
	w.mu.Lock()
	defer w.mu.Unlock()
	if t := vsched.Current(); t >= 0 {
		if w.perT[t] == nil {
			w.perT[t] = &bytes.Buffer{}
		}
		w.perT[t].Write(p)
	}
	return w.buf.Write(p)
}

var c20io = &c20IO{exits: map[int][]int{}, perT: map[int]*bytes.Buffer{}}

func c20Install() {
	cli.VerifSetIO(c20io, c20io, func(code int) {
		c20io.mu.Lock()
		t := vsched.Current()
		c20io.exits[t] = append(c20io.exits[t], code)
		c20io.mu.Unlock()
		runtime.Goexit()
	})
}

// ---- templates: each builds a fresh application and runs it once; chosen to collide
// (same spec text with different declarations, same option names, same environment
// variable, a rejection, a help request, hooks and Exit, nested repetitions, implicit spec)

type template struct {
	name    string
	env     map[string]string // environment at declaration time
	run     func() string     // build + run, returns the outcome (without output stream / exit codes)
	must    string            // the outcome must contain this text (absolute expectation)
	setsEnv bool              // changes the environment while it runs: not usable concurrently
}

// runHere calls Run on the current goroutine; an exit ends the goroutine, so templates that may
// exit are always started through spawn().
func outcome(app *cli.Cli, argv []string, vals func() string) (res string) {
	ran := 0
	if app.Action == nil {
		app.Action = func() { ran++ }
	} else {
		inner := app.Action
		app.Action = func() { ran++; inner() }
	}
	done := false
	defer func() {
		if done {
			return
		}
		if r := recover(); r != nil {
			res = fmt.Sprintf("panic=%v ran=%d %s", safeSprint(r), ran, vals())
			return
		}
		res = fmt.Sprintf("exited ran=%d %s", ran, vals())
	}()
	err := app.Run(argv)
	done = true
	if err != nil && keepErrs {
		keptErrs = append(keptErrs, keptErr{err, err.Error(), argv[0]})
	}
	return fmt.Sprintf("err=%v ran=%d %s", err, ran, vals())
}

// mode=history only (single-threaded): the error values returned by earlier Runs are kept; an error handed to the
// caller belongs to that run and must read the same whatever other applications do afterwards.
type keptErr struct {
	err  error
	text string
	app  string
}

var keepErrs bool
var keptErrs []keptErr

func keptErrsChanged() string {
	for _, k := range keptErrs {
		if now := k.err.Error(); now != k.text {
			return fmt.Sprintf(" | the error returned earlier by the Run of %s read %q and now reads %q", k.app, k.text, now)
		}
	}
	return ""
}

var templates = []*template{
	{name: "T0 spec `[-a] X...`, a flag, X multi", run: func() string {
		app := cli.App("t0", "")
		app.ErrorHandling = flag.ContinueOnError
		app.Spec = "[-a] X..."
		a := app.BoolOpt("a all", false, "")
		x := app.StringsArg("X", nil, "")
		return outcome(app, []string{"t0", "-a", "x", "y"}, func() string { return fmt.Sprintf("a=%v X=%q", *a, *x) })
	}},
	{name: "T1 same spec text `[-a] X...`, a valued, X multi ints", run: func() string {
		app := cli.App("t1", "")
		app.ErrorHandling = flag.ContinueOnError
		app.Spec = "[-a] X..."
		a := app.StringOpt("a all", "dflt", "")
		x := app.IntsArg("X", nil, "")
		return outcome(app, []string{"t1", "-a", "v", "1", "2"}, func() string { return fmt.Sprintf("a=%q X=%v", *a, *x) })
	}},
	{name: "T2 option backed by $VQ_S (=one at declaration, changed to `later` before Run)", env: map[string]string{"VQ_S": "one"}, must: `s="one"`, setsEnv: true, run: func() string {
		app := cli.App("t2", "")
		app.ErrorHandling = flag.ContinueOnError
		app.Spec = "-s [-a]"
		s := app.String(cli.StringOpt{Name: "s", EnvVar: "VQ_S", Value: "dflt"})
		a := app.BoolOpt("a all", false, "")
		os.Setenv("VQ_S", "later") // the environment is read at declaration time only
		return outcome(app, []string{"t2", "-a"}, func() string { return fmt.Sprintf("s=%q a=%v", *s, *a) })
	}},
	{name: "T3 same option backed by $VQ_S (=two), given on the command line too", env: map[string]string{"VQ_S": "two"}, run: func() string {
		app := cli.App("t3", "")
		app.ErrorHandling = flag.ContinueOnError
		sbu := false
		s := app.Strings(cli.StringsOpt{Name: "s", EnvVar: "VQ_S", SetByUser: &sbu})
		return outcome(app, []string{"t3", "-s", "cl1", "-s=cl2"}, func() string { return fmt.Sprintf("s=%q setbyuser=%v", *s, sbu) })
	}},
	{name: "T4 rejected invocation (missing argument) under ContinueOnError", run: func() string {
		app := cli.App("t4", "")
		app.ErrorHandling = flag.ContinueOnError
		app.Spec = "[-a] X"
		a := app.BoolOpt("a all", false, "")
		x := app.StringArg("X", "", "")
		return outcome(app, []string{"t4", "-a"}, func() string { return fmt.Sprintf("a=%v X=%q", *a, *x) })
	}},
	{name: "T5 help request on a sub-command under ExitOnError", run: func() string {
		app := cli.App("t5", "")
		app.ErrorHandling = flag.ExitOnError
		app.Command("sub s", "a sub-command", func(c *cli.Cmd) {
			c.BoolOpt("a all", false, "")
			c.Action = func() {}
		})
		return outcome(app, []string{"t5", "s", "--help"}, func() string { return "" })
	}},
	{name: "T6 tree with hooks; the Action calls Exit(3); Afters run", run: func() string {
		app := cli.App("t6", "")
		app.ErrorHandling = flag.ContinueOnError
		var log []string
		app.Before = func() { log = append(log, "B0") }
		app.After = func() { log = append(log, "F0") }
		app.Command("c", "", func(c *cli.Cmd) {
			x := c.StringArg("X", "", "")
			c.Before = func() { log = append(log, "B1") }
			c.After = func() { log = append(log, "F1:"+*x) }
			c.Action = func() { log = append(log, "A"); cli.Exit(3) }
		})
		return outcome(app, []string{"t6", "c", "val"}, func() string { return strings.Join(log, " ") })
	}},
	{name: "T7 nested repetitions and `--`: spec `[-a | X]... -- Y...`", run: func() string {
		app := cli.App("t7", "")
		app.ErrorHandling = flag.ContinueOnError
		app.Spec = "[-a | X]... -- Y..."
		a := app.BoolOpt("a all", false, "")
		x := app.StringsArg("X", nil, "")
		y := app.StringsArg("Y", nil, "")
		return outcome(app, []string{"t7", "x1", "-a", "x2", "--", "-a", "y2"}, func() string { return fmt.Sprintf("a=%v X=%q Y=%q", *a, *x, *y) })
	}},
	{name: "T8 implicit spec, ints and floats, SetByUser", run: func() string {
		app := cli.App("t8", "")
		app.ErrorHandling = flag.ContinueOnError
		s1, s2 := false, false
		n := app.Ints(cli.IntsOpt{Name: "n", Value: []int{9}, SetByUser: &s1})
		f := app.Float64(cli.Float64Opt{Name: "f", Value: 1.5, SetByUser: &s2})
		a := app.IntArg("A", 0, "")
		return outcome(app, []string{"t8", "-n", "1", "-n=2", "42"}, func() string { return fmt.Sprintf("n=%v f=%v A=%d sbu=%v,%v", *n, *f, *a, s1, s2) })
	}},
	{name: "T9 rejected: two int options both given unconvertible values, plus an argument", run: func() string {
		app := cli.App("t9", "")
		app.ErrorHandling = flag.ContinueOnError
		p := app.IntOpt("p port", 80, "")
		q := app.IntOpt("q queue", 5, "")
		x := app.StringArg("X", "", "")
		return outcome(app, []string{"t9", "-p", "http", "-q", "many", "val"}, func() string { return fmt.Sprintf("p=%d q=%d X=%q", *p, *q, *x) })
	}},
	{name: "T10 rejected: int arguments, the first unconvertible, with a collected option", run: func() string {
		app := cli.App("t10", "")
		app.ErrorHandling = flag.ContinueOnError
		app.Spec = "[-v] N..."
		v := app.BoolOpt("v verbose", false, "")
		n := app.IntsArg("N", nil, "")
		return outcome(app, []string{"t10", "-v", "zz", "2", "yy"}, func() string { return fmt.Sprintf("v=%v N=%v", *v, *n) })
	}},
	{name: "T11 option group with an env-backed member ($VQ_S) absent from a non-empty command line", env: map[string]string{"VQ_S": "two"}, run: func() string {
		app := cli.App("t11", "")
		app.ErrorHandling = flag.ContinueOnError
		app.Spec = "[-ev] ARG [-ev]"
		e := app.String(cli.StringOpt{Name: "e", EnvVar: "VQ_S"})
		v := app.BoolOpt("v", false, "")
		a := app.StringArg("ARG", "", "")
		return outcome(app, []string{"t11", "-v", "x", "-e", "cli"}, func() string { return fmt.Sprintf("e=%q v=%v ARG=%q", *e, *v, *a) })
	}},
	{name: "T12 application declaring its own option named h (`-h --host`), used with a value", run: func() string {
		app := cli.App("t12", "")
		app.ErrorHandling = flag.ContinueOnError
		h := app.StringOpt("h host", "localhost", "")
		p := app.IntOpt("p port", 80, "")
		return outcome(app, []string{"t12", "--host", "example.org", "-p", "8080"}, func() string { return fmt.Sprintf("host=%q port=%d", *h, *p) })
	}},
	{name: "T13 help request with the short token (-h) under ContinueOnError", run: func() string {
		app := cli.App("t13", "")
		app.ErrorHandling = flag.ContinueOnError
		v := app.BoolOpt("v verbose", false, "")
		x := app.StringArg("X", "", "")
		return outcome(app, []string{"t13", "-v", "-h"}, func() string { return fmt.Sprintf("v=%v X=%q", *v, *x) })
	}},
	{name: "T14 ambiguous repetition of optional positionals `[X | Y]... [Y]...`", run: func() string {
		app := cli.App("t14", "")
		app.ErrorHandling = flag.ContinueOnError
		app.Spec = "[X | Y]... [Y]..."
		x := app.StringsArg("X", nil, "")
		y := app.StringsArg("Y", nil, "")
		return outcome(app, []string{"t14", "p", "q", "r"}, func() string { return fmt.Sprintf("X=%q Y=%q", *x, *y) })
	}},
	{name: "T15 spec `[-ab] X` in an application that only declares a LONG option named ab (the spec is refused)", run: func() string {
		app := cli.App("t15", "")
		app.ErrorHandling = flag.ContinueOnError
		app.Spec = "[-ab] X"
		ab := app.BoolOpt("ab", false, "")
		x := app.StringArg("X", "", "")
		return outcome(app, []string{"t15", "--ab", "v"}, func() string { return fmt.Sprintf("ab=%v X=%q", *ab, *x) })
	}},
	{name: "T16 the byte-identical spec `[-ab] X` with the short flags a and b declared", run: func() string {
		app := cli.App("t16", "")
		app.ErrorHandling = flag.ContinueOnError
		app.Spec = "[-ab] X"
		a := app.BoolOpt("a", false, "")
		b := app.BoolOpt("b", false, "")
		x := app.StringArg("X", "", "")
		return outcome(app, []string{"t16", "-ba", "v"}, func() string { return fmt.Sprintf("a=%v b=%v X=%q", *a, *b, *x) })
	}},
	{name: "T17 rejected by the spec of a sub-command (`t17 push X` without X) under ContinueOnError", run: func() string {
		app := cli.App("t17", "")
		app.ErrorHandling = flag.ContinueOnError
		var x *string
		app.Command("push", "", func(cmd *cli.Cmd) {
			cmd.Spec = "[-f] X"
			cmd.BoolOpt("f force", false, "")
			x = cmd.StringArg("X", "", "")
			cmd.Action = func() {}
		})
		return outcome(app, []string{"t17", "push", "-f"}, func() string { return fmt.Sprintf("X=%q", *x) })
	}},
	{name: "T18 custom decorator value whose IsBoolFlag() answers true, used as a bare flag", run: func() string {
		app := cli.App("t18", "")
		app.ErrorHandling = flag.ContinueOnError
		w := &c20Wrap{flagLike: true}
		app.Var(cli.VarOpt{Name: "f force", Value: w})
		x := app.StringArg("X", "", "")
		return outcome(app, []string{"t18", "-f", "junk"}, func() string { return fmt.Sprintf("f=%q X=%q", w.s, *x) })
	}},
	{name: "T19 a value of the same Go type whose IsBoolFlag() answers false, used with a value", run: func() string {
		app := cli.App("t19", "")
		app.ErrorHandling = flag.ContinueOnError
		w := &c20Wrap{flagLike: false}
		app.Var(cli.VarOpt{Name: "o out", Value: w})
		x := app.StringsArg("SRC", nil, "")
		return outcome(app, []string{"t19", "-o", "a.out", "main.c"}, func() string { return fmt.Sprintf("o=%q SRC=%q", w.s, *x) })
	}},
	{name: "T20 accepted invocation with hooks under PanicOnError", run: func() string {
		app := cli.App("t20", "")
		app.ErrorHandling = flag.PanicOnError
		app.Spec = "[-a] X"
		a := app.BoolOpt("a all", false, "")
		x := app.StringArg("X", "", "")
		n := 0
		app.Before = func() { n++ }
		app.After = func() { n++ }
		return outcome(app, []string{"t20", "-a", "v"}, func() string { return fmt.Sprintf("a=%v X=%q hooks=%d", *a, *x, n) })
	}},
	{name: "T21 option backed by $VQ_U, unset at declaration and exported before Run (the default stays)", env: map[string]string{"VQ_U": ""}, must: `s="dflt"`, setsEnv: true, run: func() string {
		os.Unsetenv("VQ_U")
		app := cli.App("t21", "")
		app.ErrorHandling = flag.ContinueOnError
		app.Spec = "[-s] [X]"
		s := app.String(cli.StringOpt{Name: "s", EnvVar: "VQ_U", Value: "dflt"})
		x := app.String(cli.StringArg{Name: "X", EnvVar: "VQ_U", Value: "xdflt"})
		os.Setenv("VQ_U", "late") // the environment at declaration time decides, not the one at Run time
		return outcome(app, []string{"t21"}, func() string { return fmt.Sprintf("s=%q X=%q", *s, *x) })
	}},
}

// c20Wrap: one Go type, IsBoolFlag() decided per value (a decorator forwarding the capability of what it wraps)
type c20Wrap struct {
	s        string
	flagLike bool
}

func (w *c20Wrap) Set(s string) error { w.s = s; return nil }
func (w *c20Wrap) String() string     { return w.s }
func (w *c20Wrap) IsBoolFlag() bool   { return w.flagLike }

// runTemplate sets the template's environment, builds and runs it in its own goroutine (an Exit ends it),
// restores the environment. The env change "after declaration" of T2 is covered by restoring BEFORE Run
// cannot be done from outside; instead every template's variables are overwritten with "later" right after
// the declarations by the next template's setup (histories) — and checked directly by template T2 below.
func runTemplate(t *template) (string, string, []int) {
	for k, v := range t.env {
		os.Setenv(k, v)
	}
	c20io.mu.Lock()
	c20io.buf.Reset()
	c20io.exits = map[int][]int{}
	c20io.mu.Unlock()
	var out string
	done := make(chan struct{})
	go func() {
		defer close(done)
		out = "exited"
		out = t.run()
	}()
	<-done
	for k := range t.env {
		os.Unsetenv(k)
	}
	c20io.mu.Lock()
	defer c20io.mu.Unlock()
	return out, c20io.buf.String(), append([]int{}, c20io.exits[-1]...)
}

// when two containers hold unconvertible values, which of them is reported depends on Go's map iteration
// order; the token named in a conversion error is therefore masked in every outcome
var convTok = regexp.MustCompile(`parsing \\?"[^"\\]*\\?"`)

func maskConv(s string) string { return convTok.ReplaceAllString(s, `parsing "<token>"`) }

func describeRun(out, stderr string, exits []int) string {
	return maskConv(fmt.Sprintf("%s | exits=%v | stderr=%q", out, exits, stderr))
}

func runIndep(c *Ctx) {
	c20Install()
	switch c.Params["mode"] {
	case "solo":
		// used by mode=hist: print the outcome of one template alone in this fresh process
		var i int
		fmt.Sscan(c.Params["t"], &i)
		fmt.Printf("SOLO %s\n", jstr(describeRun(runTemplate(templates[i]))))
	case "history":
		// run one history in this fresh process, print every outcome
		keepErrs = true
		for _, f := range strings.Split(c.Params["h"], ".") {
			var i int
			fmt.Sscan(f, &i)
			fmt.Printf("STEP %d %s\n", i, jstr(describeRun(runTemplate(templates[i]))+keptErrsChanged()))
		}
	case "hist":
		runHistories(c)
	case "sched":
		runSched(c)
	case "race":
		runRacePass(c)
	default:
		panic("indep: mode?")
	}
}

func selfExec(params string) (string, error) {
	self, _ := os.Executable()
	cmd := exec.Command(self, "-check", "indep", "-params", params)
	cmd.Env = append(os.Environ(), "GOMAXPROCS=2")
	out, err := cmd.Output()
	return string(out), err
}

// parseLines extracts the JSON-quoted payloads of the lines with the given prefix ("STEP 3 " numbers are kept).
func parseLines(out, prefix string) []string {
	var r []string
	for _, l := range strings.Split(out, "\n") {
		if strings.HasPrefix(l, prefix) {
			l = strings.TrimPrefix(l, prefix)
			head := ""
			if i := strings.IndexByte(l, '"'); i > 0 {
				head, l = l[:i], l[i:]
			}
			var s string
			if json.Unmarshal([]byte(l), &s) == nil {
				l = s
			}
			r = append(r, head+l)
		}
	}
	return r
}

func soloOutcomes() []string {
	solo := make([]string, len(templates))
	for i := range templates {
		out, err := selfExec(fmt.Sprintf("mode=solo,t=%d", i))
		l := parseLines(out, "SOLO ")
		if err != nil || len(l) != 1 {
			solo[i] = fmt.Sprintf("<solo run failed: %v>", err)
			continue
		}
		solo[i] = l[0]
	}
	return solo
}

// ---- (a) sequential histories
func argvReuseDecls() []*ref.Decl {
	std := ref.Std()
	rev := ref.Std()
	rev.Name = "std-reversed"
	for i, j := 0, len(rev.Opts)-1; i < j; i, j = i+1, j-1 {
		rev.Opts[i], rev.Opts[j] = rev.Opts[j], rev.Opts[i]
	}
	return []*ref.Decl{std, rev}
}

func argvReuseCase(c *Ctx, d *ref.Decl, di int, spec string, argv []string, spare int) {
	want := append([]string{"app"}, argv...)
	full := make([]string, len(want), len(want)+spare)
	copy(full, want)
	o1 := runLang(d, spec, nil, langOpts{fullArgv: full})
	c.Count("evaluations", 1)
	c.Count("argv_reuse_pairs", 1)
	key := fmt.Sprintf("spec=%q options declared in the order of %s, argv=%q", spec, d.Name, argv)
	cs := Case{"mode": "argv-reuse", "spec": spec, "argv": argv, "decl": di, "spare": cap(full) - len(full)}
	if !sameStrings(full, want) {
		c.Violation("C20", key, cs, "Run leaves the caller's argument vector as it was", fmt.Sprintf("after Run the caller's slice reads %q", full))
		return
	}
	o2 := runLang(d, spec, nil, langOpts{fullArgv: full})
	a, b := o1.Summary()+" "+ref.BindTextOf(d, o1.Lists)+fmt.Sprint(o1.SetByUser), o2.Summary()+" "+ref.BindTextOf(d, o2.Lists)+fmt.Sprint(o2.SetByUser)
	if o1.Accepted {
		c.Count("nontrivial", 1)
	}
	if a != b {
		c.Violation("C20", key+" (application rebuilt, run with the same slice)", cs, "as the first run: "+a, b)
	}
}

// argvReuse: the argument vector belongs to the caller. An application built afresh and run with the very same
// slice a previous application was run with must end the same way, and the slice must read the same afterwards
// (every (spec, argv) pair: fresh application, Run(slice); slice compared with a copy; application rebuilt,
// Run(the same slice); both observations compared). Two declaration orders of the options, because which option's
// matcher meets a token first depends on it; slices with cap == len and with spare capacity.
func argvReuse(c *Ctx) {
	toks := []string{"x", "--", "-a", "-b", "-ab", "-ao", "-ov", "-o", "--out", "v"}
	n := 3
	argvs := ref.Argvs(toks, n)
	g := ref.NewSpecGen(leavesFull)
	idx, ns := 0, 0
	for size := 1; size <= 2; size++ {
		for _, spec := range g.Specs(size) {
			ns++
			for di, d := range argvReuseDecls() {
				idx++
				if !c.Mine(idx) || !c.Begin("argv-reuse", spec, d.Name) {
					continue
				}
				for ai, argv := range argvs {
					c.Beat()
					argvReuseCase(c, d, di, spec, argv, (ai+di)%2*3)
				}
			}
		}
	}
	if c.Shard == 0 {
		c.Note("argv reuse", fmt.Sprintf("%d specs (size<=2 over %q) x 2 declaration orders x %d argvs (length<=%d over %q): fresh application run with a caller-owned slice (cap == len or 3 spare), slice unchanged afterwards, rebuilt application run with the same slice ends the same", ns, leavesFull, len(argvs), n, toks))
	}
}

// defaultReuse: the default slice of a multi-valued declaration belongs to the caller as well. An application
// given command-line values must leave it as it was, and an application rebuilt with the same slice and run without
// values must bind exactly the original content.
func defaultReuse(c *Ctx) {
	n := 0
	for kind := 0; kind < 3; kind++ { // strings, ints, floats64
		for asArg := 0; asArg < 2; asArg++ {
			for spare := 0; spare < 2; spare++ {
				for _, given := range [][]string{{"1"}, {"1", "2"}, {"1", "2", "3"}, {}} {
					n++
					var ds []string
					var di []int
					var df []float64
					ds = append(make([]string, 0, 2+spare*4), "7", "8")
					di = append(make([]int, 0, 2+spare*4), 7, 8)
					df = append(make([]float64, 0, 2+spare*4), 7, 8)
					read := func() string { return fmt.Sprint(ds[:2], di[:2], df[:2], len(ds), len(di), len(df)) }
					orig := read()
					build := func() (*cli.Cli, func() string) {
						app := cli.App("dr", "")
						app.ErrorHandling = flag.ContinueOnError
						var get func() string
						if asArg == 1 {
							app.Spec = "[X...]"
							switch kind {
							case 0:
								p := app.StringsArg("X", ds, "")
								get = func() string { return fmt.Sprint(*p) }
							case 1:
								p := app.IntsArg("X", di, "")
								get = func() string { return fmt.Sprint(*p) }
							default:
								p := app.Floats64Arg("X", df, "")
								get = func() string { return fmt.Sprint(*p) }
							}
						} else {
							app.Spec = "[-x...]"
							switch kind {
							case 0:
								p := app.StringsOpt("x", ds, "")
								get = func() string { return fmt.Sprint(*p) }
							case 1:
								p := app.IntsOpt("x", di, "")
								get = func() string { return fmt.Sprint(*p) }
							default:
								p := app.Floats64Opt("x", df, "")
								get = func() string { return fmt.Sprint(*p) }
							}
						}
						app.Action = func() {}
						return app, get
					}
					argv := []string{"dr"}
					for _, g := range given {
						if asArg == 1 {
							argv = append(argv, g)
						} else {
							argv = append(argv, "-x", g)
						}
					}
					app1, get1 := build()
					sharedBuf.Reset()
					runDirect(&sharedBuf, func() error { return app1.Run(argv) })
					first := get1()
					app2, get2 := build()
					sharedBuf.Reset()
					runDirect(&sharedBuf, func() error { return app2.Run([]string{"dr"}) })
					c.Count("evaluations", 1)
					c.Count("nontrivial", 1)
					c.Count("default_reuse_cases", 1)
					key := fmt.Sprintf("default slice [7 8] (kind %d of strings/ints/floats64, %d spare elements) behind %s; first application run with %q, then the application rebuilt with the same slice and run without values", kind, spare*4, []string{"option -x", "argument X"}[asArg], argv[1:])
					if now := read(); now != orig {
						c.Violation("C20", key, Case{"mode": "default-reuse"}, "the caller's default slice still reads [7 8]: "+orig, now+" (first application bound "+first+")")
						continue
					}
					if got := get2(); got != "[7 8]" {
						c.Violation("C20", key, Case{"mode": "default-reuse"}, "the rebuilt application binds the default [7 8]", got)
					}
				}
			}
		}
	}
	c.Note("default reuse", fmt.Sprintf("%d cases: strings / ints / floats64 x {option, argument} x default slice with and without spare capacity x 0-3 command-line values: the caller's default slice is unchanged and a rebuilt application binds it again", n))
}

func runHistories(c *Ctx) {
	argvReuse(c)
	if c.Shard == 0 && c.Begin("default-reuse") {
		defaultReuse(c)
	}
	c20Install()
	solo := soloOutcomes()
	if c.Shard == 0 && c.Begin("determinism") {
		// rebuilding and rerunning the same application gives the same outcome, every time
		const rebuilds = 120
		for i, t := range templates {
			first := ""
			for k := 0; k < rebuilds; k++ {
				out, se, ex := runTemplate(t)
				got := describeRun(out, se, ex)
				c.Count("evaluations", 1)
				c.Count("rebuilds", 1)
				if k == 0 {
					first = got
				} else if got != first {
					c.Violation("C20", fmt.Sprintf("template %q rebuilt and rerun %d times in one process", t.name, rebuilds), Case{"mode": "rebuild", "template": i}, "every rebuild ends like the first: "+first, fmt.Sprintf("rebuild %d: %s", k, got))
					break
				}
			}
		}
		c.Note("determinism", fmt.Sprintf("every template rebuilt and rerun %d times in one process, all outcomes identical", rebuilds))
	}
	// determinism of the solo run itself: a second fresh process gives the same outcome
	solo2 := soloOutcomes()
	for i := range solo {
		if solo[i] != solo2[i] && c.Shard == 0 {
			c.Violation("C20", fmt.Sprintf("template %q run twice, each alone in a fresh process", templates[i].name), Case{"mode": "hist", "history": []int{i}}, solo[i], solo2[i])
		}
	}
	maxLen := 3
	if !c.Thorough() && len(templates) > 9 {
		maxLen = 3
	}
	idx := 0
	var hist []int
	var rec func()
	rec = func() {
		if len(hist) > 0 {
			idx++
			if c.Mine(idx) && c.Begin("history", fmt.Sprint(hist)) {
				oneHistory(c, append([]int{}, hist...), solo)
			}
		}
		if len(hist) == maxLen {
			return
		}
		for i := range templates {
			hist = append(hist, i)
			rec()
			hist = hist[:len(hist)-1]
		}
	}
	rec()
	c.Note("histories", fmt.Sprintf("every ordered sequence of <= %d of the %d templates, each sequence in one fresh process; reference outcome of a template = its outcome alone in a fresh process (computed twice)", maxLen, len(templates)))
}

func oneHistory(c *Ctx, hist []int, solo []string) {
	var parts []string
	for _, h := range hist {
		parts = append(parts, fmt.Sprint(h))
	}
	out, err := selfExec("mode=history,h=" + strings.Join(parts, "."))
	steps := parseLines(out, "STEP ")
	c.Count("evaluations", 1)
	c.Count("hist_histories", 1)
	if len(hist) >= 2 {
		c.Count("nontrivial", 1)
	}
	key := fmt.Sprintf("history %v", histNames(hist))
	if err != nil || len(steps) != len(hist) {
		c.Violation("C20", key, Case{"mode": "hist", "history": hist}, "every template runs to its solo outcome", fmt.Sprintf("the process running the history failed: %v (%d of %d steps)", err, len(steps), len(hist)))
		return
	}
	for i, h := range hist {
		got := strings.SplitN(steps[i], " ", 2)[1]
		if m := templates[h].must; m != "" && !strings.Contains(got, m) {
			c.Violation("C20", key+fmt.Sprintf(" step %d (environment at declaration time)", i), Case{"mode": "hist", "history": hist}, "outcome contains "+m, got)
			return
		}
		if got != solo[h] {
			c.Violation("C20", key+fmt.Sprintf(" step %d", i), Case{"mode": "hist", "history": hist}, "outcome of "+templates[h].name+" alone: "+solo[h], got)
			return
		}
	}
	if len(hist) == 3 && c.WantSample("history") {
		c.Sample("history", Case{"history": histNames(hist), "outcomes": steps})
	}
}

func histNames(h []int) []string {
	var n []string
	for _, i := range h {
		n = append(n, strings.SplitN(templates[i].name, " ", 2)[0])
	}
	return n
}

func replayIndep(c *Ctx, cs Case) {
	c20Install()
	switch cStr(cs, "mode") {
	case "rebuild":
		t := templates[cInt(cs, "template")]
		first := ""
		for k := 0; k < 400; k++ {
			out, se, ex := runTemplate(t)
			got := describeRun(out, se, ex)
			if k == 0 {
				first = got
			} else if got != first {
				c.Violation("C20", fmt.Sprintf("template %q rebuilt and rerun %d times in one process", t.name, 120), cs, "every rebuild ends like the first: "+first, "a rebuild ended differently")
				return
			}
		}
	case "default-reuse":
		defaultReuse(c) // small: the whole enumeration
	case "argv-reuse":
		di := cInt(cs, "decl")
		argvReuseCase(c, argvReuseDecls()[di], di, cStr(cs, "spec"), cStrs(cs, "argv"), cInt(cs, "spare"))
	case "hist":
		var hist []int
		for _, x := range cs["history"].([]interface{}) {
			hist = append(hist, int(x.(float64)))
		}
		oneHistory(c, hist, soloOutcomes())
	case "sched":
		var ts, pre []int
		for _, x := range cs["threads"].([]interface{}) {
			ts = append(ts, int(x.(float64)))
		}
		if p, ok := cs["prefix"].([]interface{}); ok {
			for _, x := range p {
				pre = append(pre, int(x.(float64)))
			}
		}
		sc := newScenario(ts)
		sc.check(c, sc.exec(pre), pre)
	}
}

// ---- (c) free-running pass for the race detector
func runRacePass(c *Ctx) {
	rounds := 60
	if c.Thorough() {
		rounds = 300
	}
	// templates that do not change the environment while running (a concurrent Setenv would be a legitimate
	// influence); the variable they read is set once, before any goroutine starts
	os.Setenv("VQ_S", "fixed")
	var ts []*template
	for _, t := range templates {
		if !t.setsEnv {
			ts = append(ts, t)
		}
	}
	want := make([]string, len(ts))
	for i, t := range ts {
		done := make(chan struct{})
		go func() { defer close(done); want[i] = "exited"; want[i] = maskConv(t.run()) }()
		<-done
	}
	n := 16
	for r := 0; r < rounds; r++ {
		c.Beat()
		var wg sync.WaitGroup
		got := make([]string, n)
		for g := 0; g < n; g++ {
			wg.Add(1)
			go func(g int) {
				defer wg.Done()
				got[g] = "exited"
				got[g] = maskConv(ts[(g+r)%len(ts)].run())
			}(g)
		}
		wg.Wait()
		for g := 0; g < n; g++ {
			c.Count("evaluations", 1)
			c.Count("nontrivial", 1)
			c.Count("race_pass_runs", 1)
			if got[g] != want[(g+r)%len(ts)] {
				c.Violation("C20", fmt.Sprintf("free-running round %d goroutine %d template %q", r, g, ts[(g+r)%len(ts)].name), Case{"mode": "race"}, want[(g+r)%len(ts)], got[g])
			}
		}
	}
	os.Unsetenv("VQ_S")
	c.Note("race pass", fmt.Sprintf("%d rounds x %d goroutines building and running templates concurrently, not under the scheduler, binary built with -race (a report of the detector is a violation; silence is supporting evidence only)", rounds, n))
}
