//go:build verif

package main

import (
	"fmt"
	"strings"

	"github.com/jawher/mow.cli/internal/zverif/ref"
)

// C09 / C10 / C11: metamorphic relations between runs of the real code on the
// same spec (insertion of `--`, re-spelling, swapping adjacent occurrences),
// read out of one memoised outcome table per spec; C09 part 2 against the reference.

func init() {
	register(&CheckDef{Name: "meta", Props: []string{"C09", "C10", "C11"}, Run: runMeta, Replay: replayMeta})
}

var tokMeta = []string{"x", "v", "-", "--", "-a", "--aa", "-a=true", "-b", "-ab", "-ba", "-o", "-ov", "-o=v", "--out", "--out=v", "-aov", "-ao",
	// a value made of characters that matter elsewhere (underscore, equals sign, dash), in every spelling
	"w_=-z", "-ow_=-z", "--out=w_=-z",
	// a value with blanks around it, attached to the short name and to the long name
	"-o p ", "--out= p "}
var tokMetaSm = []string{"x", "--", "-a", "--aa", "-b", "-ab", "-ba", "-o", "-ov", "--out=v", "-ao"}
var tokTail = []string{"x", "-a", "-z", "--zz", "--", "-", "-o", "-o=", "--a"}

type outcomeTable struct {
	d    *ref.Decl
	spec string
	env  map[string]string // options backed by a set environment variable (nil: none)
	memo map[string]string
	runs int64
}

func (t *outcomeTable) key(a, b []string) string {
	k := metaKey(t.spec, a, b)
	if len(t.env) > 0 {
		k += " env=" + envText(t.env)
	}
	return k
}

func (t *outcomeTable) of(argv []string) string {
	k := strings.Join(argv, "\x00")
	if o, ok := t.memo[k]; ok {
		return o
	}
	obs := runLang(t.d, t.spec, argv, langOpts{env: t.env})
	t.runs++
	o := "R"
	switch {
	case obs.Panic != "" || len(obs.Exits) > 0:
		o = "X " + obs.Summary()
	case obs.Accepted:
		o = "A " + ref.BindTextOf(t.d, obs.Lists)
	}
	t.memo[k] = o
	return o
}

func hasEndLeaf(spec string) bool {
	for _, f := range strings.FieldsFunc(spec, func(r rune) bool { return strings.ContainsRune(" ()[]|", r) }) {
		if f == "--" {
			return true
		}
	}
	return false
}

func runMeta(c *Ctx) {
	d := ref.Std()
	size, alen, toks := 3, 3, tokMeta
	type tier struct {
		leaves []string
		size   int
		toks   []string
		alen   int
		decl   string
	}
	tokMetaAlt := []string{"x", "v", "--", "-a", "--aa", "-n", "-m", "-nm", "-mn", "-na", "-o", "-ov", "-o=v", "--out=v", "--out", "--output=v", "--output"}
	tiers := []tier{{leavesFull, size, toks, alen, ""}, {leavesNest, 4, []string{"x", "-a", "--"}, 3, ""}, {leavesAlt, 2, tokMetaAlt, 3, "alt"}, {leavesNum, 2, tokNum, 3, "num"}, {leavesFull, 2, tokMetaSm, 3, "sub"}}
	if c.Thorough() {
		tiers = []tier{{leavesFull, 3, tokMeta, 3, ""}, {leavesFull, 3, tokMetaSm, 4, ""}, {leavesMid, 4, tokMetaSm, 3, ""}, {leavesNest, 5, []string{"x", "-a", "--", "-"}, 3, ""}, {leavesAlt, 3, tokMetaAlt, 3, "alt"}, {leavesNum, 3, tokNum, 3, "num"}, {leavesFull, 3, tokMetaSm, 3, "sub"}}
	}
	idx := 0
	var asLang []langTier
	for _, t := range tiers {
		asLang = append(asLang, langTier{leaves: t.leaves, maxSize: t.size, toks: t.toks, maxLen: t.alen, decl: t.decl})
	}
	std := d
	for ti, t := range tiers {
		d := std
		if t.decl != "" {
			d = ref.DeclByName(t.decl)
		}
		g := ref.NewSpecGen(t.leaves)
		argvsAll := ref.Argvs(t.toks, t.alen)
		nfree, nend := 0, 0
		for n := 1; n <= t.size; n++ {
			for _, spec := range g.Specs(n) {
				idx++
				withEnd := hasEndLeaf(spec)
				if withEnd {
					nend++
				} else {
					nfree++
				}
				if !c.Mine(idx) {
					continue
				}
				if !c.Begin("meta", spec) {
					continue
				}
				if withEnd {
					// part 2 of C09, once per spec (a spec of an earlier tier is not repeated)
					if c.On("C09") && len(newCoverageDecl(asLang[:ti], spec, n, false, t.decl).toks) == 0 {
						metaEndSpecs(c, d, spec)
					}
					continue
				}
				// base command lines already explored for this spec by an earlier tier are skipped
				cov := newCoverageDecl(asLang[:ti], spec, n, false, t.decl)
				var argvs [][]string
				for _, a := range argvsAll {
					if !cov.covers(a) {
						argvs = append(argvs, a)
					}
				}
				readings := make([]ref.Reading, len(argvs))
				for i, a := range argvs {
					readings[i] = ref.ReadAll(d, a)
				}
				tab := &outcomeTable{d: d, spec: spec, memo: map[string]string{}}
				if c.On("C10") {
					metaC10(c, tab, argvs, readings)
				}
				if c.On("C09") {
					metaC09(c, tab, argvs, readings)
					metaC09Tail(c, tab, argvs, readings)
				}
				if c.On("C11") {
					metaC11(c, tab, argvs, readings)
				}
				c.Count("runs_of_real_code", tab.runs)
				// the same two relations with both env-backed options satisfied by their environment variables
				if t.decl == "" && ti == 0 && (n <= 2 || c.Thorough()) {
					tabE := &outcomeTable{d: d, spec: spec, env: envSubsets[3], memo: map[string]string{}}
					if c.On("C10") {
						metaC10(c, tabE, argvs, readings)
					}
					if c.On("C11") {
						metaC11(c, tabE, argvs, readings)
					}
					c.Count("runs_of_real_code", tabE.runs)
					c.Count("tables_with_environment", 1)
				}
			}
		}
		if c.Shard == 0 {
			c.Note(fmt.Sprintf("tier %d", ti), fmt.Sprintf("%d `--`-free specs and %d specs with `--` (size<=%d over %d leaves) x %d argvs (length<=%d over %q); base command lines already covered by an earlier tier are skipped", nfree, nend, t.size, len(t.leaves), len(argvsAll), t.alen, t.toks))
		}
	}
}

func metaKey(spec string, a, b []string) string {
	return fmt.Sprintf("spec=%q argv=%q vs argv=%q", spec, a, b)
}

// metaCase builds the replayable case of a metamorphic pair.
func metaCase(t *outcomeTable, a, b []string, rel string) Case {
	cs := Case{"spec": t.spec, "argv": a, "argv2": b, "rel": rel, "decl": declName(t.d)}
	if len(t.env) > 0 {
		cs["env"] = t.env
	}
	return cs
}

// ---- C09 part 1: inserting `--` anywhere in the trailing block of non-dash positionals changes nothing
func metaC09(c *Ctx, t *outcomeTable, argvs [][]string, rd []ref.Reading) {
	for i, argv := range argvs {
		r := rd[i]
		if r.Ended >= 0 || r.Malformed {
			continue
		}
		c.Beat()
		// start of the trailing block of positional items that do not start with a dash
		start := len(argv)
		for k := len(r.Items) - 1; k >= 0; k-- {
			it := r.Items[k]
			if it.Kind == ref.ItPos && !strings.HasPrefix(it.Val, "-") {
				start = it.Tok
				continue
			}
			break
		}
		base := t.of(argv)
		for p := start; p <= len(argv); p++ {
			w := make([]string, 0, len(argv)+1)
			w = append(append(append(w, argv[:p]...), "--"), argv[p:]...)
			got := t.of(w)
			c.Count("C09:evaluations", 1)
			if base != "R" {
				c.Count("C09:nontrivial", 1)
			}
			if got != base {
				c.Violation("C09", t.key(argv, w), metaCase(t, argv, w, "C09"),
					"same outcome after inserting `--` at position "+fmt.Sprint(p)+": "+base, got)
			} else if c.WantSample("C09:insertion") && base != "R" && len(argv) >= 2 {
				c.Sample("C09:insertion", Case{"spec": t.spec, "argv": argv, "with_marker": w, "outcome_both": base})
			}
		}
	}
}

// ---- C09 part 3: what follows the first `--` is positional whatever it looks like: replacing every token of
// the tail by a neutral placeholder changes nothing but the bound strings
func metaC09Tail(c *Ctx, t *outcomeTable, argvs [][]string, rd []ref.Reading) {
	for i, argv := range argvs {
		r := rd[i]
		if r.Ended < 0 || r.Malformed || r.Ended == len(argv)-1 {
			continue
		}
		tail := argv[r.Ended+1:]
		dashed := false
		for _, x := range tail {
			dashed = dashed || strings.HasPrefix(x, "-")
		}
		if !dashed {
			continue
		}
		c.Beat()
		neutral := append([]string{}, argv[:r.Ended+1]...)
		for k := range tail {
			neutral = append(neutral, fmt.Sprintf("p%d", k))
		}
		want := t.of(neutral)
		for k, x := range tail {
			want = strings.Replace(want, fmt.Sprintf("p%d", k), x, -1)
		}
		got := t.of(argv)
		c.Count("C09:evaluations", 1)
		c.Count("C09:tail_cases", 1)
		if want != "R" {
			c.Count("C09:nontrivial", 1)
		}
		if got != want {
			c.Violation("C09", t.key(neutral, argv), metaCase(t, neutral, argv, "C09-tail"),
				"the tokens after `--` are bound like neutral positionals at the same places: "+want, got)
		}
	}
}

// ---- C10: all spellings of the same reading have the same outcome
func readingKey(d *ref.Decl, argv []string, r ref.Reading) string {
	var sb strings.Builder
	for _, it := range r.Items {
		switch it.Kind {
		case ref.ItOcc:
			fmt.Fprintf(&sb, "o%d=%s\x00", it.Opt, it.Val)
		case ref.ItPos:
			fmt.Fprintf(&sb, "p%s\x00", it.Val)
		case ref.ItEnd:
			sb.WriteString("--\x00")
		}
	}
	return sb.String()
}

func metaC10(c *Ctx, t *outcomeTable, argvs [][]string, rd []ref.Reading) {
	type bucket struct {
		first []string
		out   string
		n     int
	}
	buckets := map[string]*bucket{}
	for i, argv := range argvs {
		r := rd[i]
		if r.Malformed {
			continue
		}
		c.Beat()
		k := readingKey(t.d, argv, r)
		out := t.of(argv)
		b := buckets[k]
		if b == nil {
			buckets[k] = &bucket{first: argv, out: out, n: 1}
			continue
		}
		b.n++
		c.Count("C10:evaluations", 1)
		if out != "R" || b.out != "R" {
			c.Count("C10:nontrivial", 1)
		}
		if out != b.out {
			c.Violation("C10", t.key(b.first, argv), metaCase(t, b.first, argv, "C10"),
				"same outcome for two spellings of the same occurrences: "+b.out, out)
		} else if c.WantSample("C10:respelling") && out != "R" && len(argv) >= 2 && strings.Join(argv, " ") != strings.Join(b.first, " ") {
			c.Sample("C10:respelling", Case{"spec": t.spec, "spelling_1": b.first, "spelling_2": argv, "outcome_both": out})
		}
	}
	mx := 0
	for _, b := range buckets {
		if b.n > mx {
			mx = b.n
		}
	}
	c.Max("max_C10:largest_bucket", int64(mx))
}

// ---- C11: swapping two adjacent occurrences of different options changes nothing
func metaC11(c *Ctx, t *outcomeTable, argvs [][]string, rd []ref.Reading) {
	for i, argv := range argvs {
		r := rd[i]
		if r.Malformed {
			continue
		}
		// units: all occurrences written in one token (a fold, with its separate value if any) move together;
		// swapping two adjacent units with disjoint option sets is a composition of swaps of different options
		type unit struct {
			tok, ntok int
			opts      map[int]bool
			fold      bool
		}
		var units []unit
		for k := 0; k < len(r.Items); k++ {
			it := r.Items[k]
			if it.Kind != ref.ItOcc {
				units = append(units, unit{tok: -1})
				continue
			}
			if n := len(units); n > 0 && units[n-1].tok == it.Tok {
				units[n-1].opts[it.Opt] = true
				units[n-1].fold = true
				if it.NTok > units[n-1].ntok {
					units[n-1].ntok = it.NTok
				}
				continue
			}
			units = append(units, unit{tok: it.Tok, ntok: it.NTok, opts: map[int]bool{it.Opt: true}})
		}
		for k := 0; k+1 < len(units); k++ {
			a, b := units[k], units[k+1]
			if a.tok < 0 || b.tok < 0 || !(a.fold || b.fold) {
				continue // single occurrences are handled below
			}
			disjoint := true
			for o := range a.opts {
				if b.opts[o] {
					disjoint = false
				}
			}
			if !disjoint {
				continue
			}
			var w []string
			w = append(w, argv[:a.tok]...)
			w = append(w, argv[b.tok:b.tok+b.ntok]...)
			w = append(w, argv[a.tok:a.tok+a.ntok]...)
			w = append(w, argv[b.tok+b.ntok:]...)
			c.Beat()
			base, got := t.of(argv), t.of(w)
			c.Count("C11:evaluations", 1)
			c.Count("C11:fold_unit_swaps", 1)
			if base != "R" || got != "R" {
				c.Count("C11:nontrivial", 1)
			}
			if base != got {
				c.Violation("C11", t.key(argv, w), metaCase(t, argv, w, "C11"),
					"same outcome after moving a folded token past an adjacent occurrence of a different option: "+base, got)
			}
		}
		for k := 0; k+1 < len(r.Items); k++ {
			a, b := r.Items[k], r.Items[k+1]
			if a.Kind != ref.ItOcc || b.Kind != ref.ItOcc || a.Opt == b.Opt {
				continue
			}
			var w []string
			switch {
			case !a.InFold && !b.InFold:
				// two whole-token occurrences (1 or 2 tokens each)
				w = append(w, argv[:a.Tok]...)
				w = append(w, argv[b.Tok:b.Tok+b.NTok]...)
				w = append(w, argv[a.Tok:a.Tok+a.NTok]...)
				w = append(w, argv[b.Tok+b.NTok:]...)
			case a.InFold && b.InFold && a.Tok == b.Tok && a.Bare && b.Bare && t.d.Opts[a.Opt].Flag && t.d.Opts[b.Opt].Flag:
				// neighbouring letters of a fold: swap the two letters
				tok := []byte(argv[a.Tok])
				la, lb := 1+a.Letter, 1+b.Letter
				if lb >= len(tok) {
					continue
				}
				tok[la], tok[lb] = tok[lb], tok[la]
				w = append([]string{}, argv...)
				w[a.Tok] = string(tok)
			default:
				continue
			}
			c.Beat()
			base, got := t.of(argv), t.of(w)
			c.Count("C11:evaluations", 1)
			if base != "R" || got != "R" {
				c.Count("C11:nontrivial", 1)
			}
			if base != got {
				c.Violation("C11", t.key(argv, w), metaCase(t, argv, w, "C11"),
					"same outcome after swapping two adjacent occurrences of different options: "+base, got)
			} else if c.WantSample("C11:swap") && base != "R" && len(argv) >= 2 {
				c.Sample("C11:swap", Case{"spec": t.spec, "argv": argv, "swapped": w, "outcome_both": base})
			}
		}
	}
}

// ---- C09 part 2: specs containing `--`: what follows the marker is bound verbatim (against the reference)
func metaEndSpecs(c *Ctx, d *ref.Decl, spec string) {
	node, err := ref.ParseSpec(d, spec)
	if err != nil {
		panic(err)
	}
	for _, argv := range ref.Argvs(tokTail, 3) {
		c.Beat()
		obs := runLang(d, spec, argv, langOpts{})
		ev := ref.Eval{D: d, Argv: argv}
		v := ev.Run(node)
		c.Count("C09:evaluations", 1)
		c.Count("C09:spec_level_marker_cases", 1)
		if v.Unclaimed {
			c.Count("C09:unclaimed_U1U2", 1)
			continue
		}
		if v.Accept {
			c.Count("C09:nontrivial", 1)
		}
		got := "R"
		if obs.Accepted {
			got = "A " + ref.BindTextOf(d, obs.Lists)
		}
		ok := false
		if !v.Accept {
			// the group reading cannot differ after a marker (no options there); before it it can
			ev2 := ref.Eval{D: d, Argv: argv, GroupAny: true}
			if v2 := ev2.Run(node); v2.Accept {
				continue
			}
			ok = !obs.Accepted
		} else {
			for _, b := range v.Binds {
				if got == "A "+b {
					ok = true
				}
			}
		}
		if !ok {
			exp := "rejected"
			if v.Accept {
				exp = "accepted, tokens after the marker bound verbatim: " + strings.Join(v.Binds, " / ")
			}
			c.Violation("C09", fmt.Sprintf("spec=%q argv=%q", spec, argv), Case{"spec": spec, "argv": argv, "rel": "C09-spec", "decl": declName(d)}, exp, got)
		} else if c.WantSample("C09:spec-level") && v.Accept && len(argv) >= 2 {
			c.Sample("C09:spec-level", Case{"spec": spec, "argv": argv, "outcome": got})
		}
	}
}

func replayMeta(c *Ctx, cs Case) {
	d := ref.DeclByName(cStr(cs, "decl"))
	spec := cStr(cs, "spec")
	rel := cStr(cs, "rel")
	if rel == "C09-spec" {
		// re-run the whole tail table of this spec (cheap) with only C09 enabled
		metaEndSpecs(c, d, spec)
		return
	}
	t := &outcomeTable{d: d, spec: spec, memo: map[string]string{}}
	if em, ok := cs["env"].(map[string]interface{}); ok {
		t.env = map[string]string{}
		for k, v := range em {
			t.env[k], _ = v.(string)
		}
	}
	a, b := cStrs(cs, "argv"), cStrs(cs, "argv2")
	oa, ob := t.of(a), t.of(b)
	if rel == "C09-tail" {
		rel = "C09"
		for k := len(a) - 1; k >= 0 && strings.HasPrefix(a[k], "p"); k-- {
			oa = strings.Replace(oa, a[k], b[k], -1)
		}
	}
	if oa != ob {
		c.Violation(rel, t.key(a, b), cs, "same outcome: "+oa, ob)
	}
}
