//go:build verif

package main

import (
	"fmt"
	"strings"

	"github.com/jawher/mow.cli/internal/zverif/ref"
)

func isSpecError(v interface{}) bool { return asSpecErr(v) != nil }

// Alphabets (DESIGN.md section 5).
var (
	leavesFull = []string{"-a", "-b", "-o", "--aa", "-ab", "OPTIONS", "X", "Y", "--"}
	leavesMid  = []string{"-a", "-o", "-ab", "OPTIONS", "X", "Y", "--"}
	leavesTiny = []string{"-a", "-ab", "X", "--"}
	leavesNest = []string{"X", "--", "-a"} // deep nesting of repetitions / optional groups
	leavesOpts = []string{"-a", "-b", "X"} // two options consumable at several points of one run (backtracking completeness)
	// the alternative declarations (ref.Alt): long name first, two short names, three names
	// declaration set "num" (digit-named flag, folds that read like numbers)
	leavesNum = []string{"OPTIONS", "--ipv4", "-i", "-n", "--nan", "--nan-ok", "-f", "-inf", "-p", "X"}
	tokNum    = []string{"x", "--", "-4", "--ipv4", "-4=true", "-6", "-46", "-i", "-n", "--nan", "--nan-ok", "-f", "-inf", "-nf", "-i4", "-4n", "-p5", "-p", "5", "-p=.5", "-4p5"}
	// declaration set "val2": two valued options, command lines long enough for two `-x VALUE` pairs and a positional
	leavesVal2 = []string{"-p", "-o", "-a", "X"}
	tokVal2    = []string{"x", "v", "-p", "-o", "-a"}
	leavesAlt = []string{"-a", "--aa", "-m", "-nm", "-an", "-o", "--output", "OPTIONS", "X"}
	tokAlt    = []string{"x", "--", "-a", "--aa", "-n", "-m", "-mn", "-na", "-ov", "--output=v", "--out", "-amo"}

	tokFull = []string{"x", "v", "-", "--", "-a", "--aa", "-a=true", "-b", "-ab", "-ba", "-o", "-ov", "-o=v", "--out", "--out=v",
		"-aov", "-ao", "-z", "--zz", "-az", "-o=", "--out=", "-z=v",
		// unambiguous prefixes of declared long names are NOT spellings of them
		"--ou=v", "--a",
		// a value with characters that also occur in names (`_`, `-`, `=`) is bound byte for byte
		"--out=w_-=z",
		// an attached value may start with a dash or be a lone dash; an empty token is a positional
		"-o=-a", "--out=-", "",
		// a value glued to a short option may contain `=`
		"-ov=w"}
	tokMid  = []string{"x", "-", "--", "-a", "--aa", "-b", "-ab", "-o", "-ov", "--out=v", "-ao", "-z"}
	tokTiny = []string{"x", "-", "--", "-a", "-b", "-ab", "-ov", "-z"}
	// built-in value types: additionally values with surrounding blanks (must be bound byte for byte)
	tokBuiltin = append(append([]string{}, tokMid...), " x ", "-o v ", "-ov\xff\xfe", "--out=w_-=z")
)

func init() {
	register(&CheckDef{Name: "lang", Props: []string{"C01", "C02", "C15"}, Run: runLangCheck, Replay: replayLang})
}

type langTier struct {
	decl    string // "" = the standard declarations, "alt" = ref.Alt()
	name    string
	leaves  []string
	maxSize int
	toks    []string
	maxLen  int
	builtin bool
}

func langTiers(c *Ctx) []langTier {
	if c.Thorough() {
		return []langTier{
			{name: "full-s4-l3", leaves: leavesFull, maxSize: 4, toks: tokMid, maxLen: 3, builtin: false},
			{name: "full-s3-l3-alltokens", leaves: leavesFull, maxSize: 3, toks: tokFull, maxLen: 3, builtin: false},
			{name: "full-s3-l4", leaves: leavesFull, maxSize: 3, toks: tokMid, maxLen: 4, builtin: false},
			{name: "tiny-s5-l3", leaves: leavesTiny, maxSize: 5, toks: tokTiny, maxLen: 3, builtin: false},
			{name: "opts-s5-l4", leaves: leavesOpts, maxSize: 5, toks: []string{"x", "-a", "-b", "-ab"}, maxLen: 4, builtin: false},
			{name: "nest-s6-l3", leaves: leavesNest, maxSize: 6, toks: []string{"x", "-a", "--"}, maxLen: 3, builtin: false},
			{name: "builtin-s3-l3", leaves: leavesFull, maxSize: 3, toks: tokBuiltin, maxLen: 3, builtin: true},
			{decl: "alt", name: "alt-s3-l3", leaves: leavesAlt, maxSize: 3, toks: tokAlt, maxLen: 3},
			{decl: "alt", name: "alt-s4-l2", leaves: leavesAlt, maxSize: 4, toks: tokAlt, maxLen: 2},
			{decl: "num", name: "num-s3-l3", leaves: leavesNum, maxSize: 3, toks: tokNum, maxLen: 3},
			{decl: "sub", name: "sub-s3-l3", leaves: leavesFull, maxSize: 3, toks: tokMid, maxLen: 3},
			{decl: "val2", name: "val2-s4-l5", leaves: leavesVal2, maxSize: 4, toks: tokVal2, maxLen: 5},
		}
	}
	return []langTier{
		{name: "full-s3-l3", leaves: leavesFull, maxSize: 3, toks: tokMid, maxLen: 3, builtin: false},
		{name: "full-s2-l3-alltokens", leaves: leavesFull, maxSize: 2, toks: tokFull, maxLen: 3, builtin: false},
		{name: "mid-s4-l2", leaves: leavesMid, maxSize: 4, toks: tokMid, maxLen: 2, builtin: false},
		{name: "nest-s5-l3", leaves: leavesNest, maxSize: 5, toks: []string{"x", "-a", "--"}, maxLen: 3, builtin: false},
		{name: "opts-s5-l3", leaves: leavesOpts, maxSize: 5, toks: []string{"x", "-a", "-b"}, maxLen: 3, builtin: false},
		{name: "builtin-s2-l3", leaves: leavesFull, maxSize: 2, toks: tokBuiltin, maxLen: 3, builtin: true},
		{decl: "alt", name: "alt-s2-l3", leaves: leavesAlt, maxSize: 2, toks: tokAlt, maxLen: 3},
		{decl: "alt", name: "alt-s3-l2", leaves: leavesAlt, maxSize: 3, toks: tokAlt, maxLen: 2},
		{decl: "num", name: "num-s2-l3", leaves: leavesNum, maxSize: 2, toks: tokNum, maxLen: 3},
		{decl: "sub", name: "sub-s2-l3", leaves: leavesFull, maxSize: 2, toks: tokMid, maxLen: 3},
		{decl: "val2", name: "val2-s3-l5", leaves: leavesVal2, maxSize: 3, toks: tokVal2, maxLen: 5},
	}
}

func runLangCheck(c *Ctx) {
	d := ref.Std()
	idx := 0
	if c.On("C01") {
		structuralPhase(c, d, &idx)
	}
	if c.On("C01") || c.On("C02") {
		rerunPhase(c, d, &idx)
	}
	tiers := langTiers(c)
	std := d
	for ti, t := range tiers {
		d := std
		if t.decl != "" {
			d = ref.DeclByName(t.decl)
		}
		g := ref.NewSpecGen(t.leaves)
		argvs := ref.Argvs(t.toks, t.maxLen)
		nspecs := 0
		for n := 1; n <= t.maxSize; n++ {
			for _, spec := range g.Specs(n) {
				nspecs++
				idx++
				if !c.Mine(idx) {
					continue
				}
				if !c.Begin("lang", t.name, spec) {
					continue
				}
				node, err := ref.ParseSpec(d, spec)
				if err != nil {
					panic(fmt.Sprintf("generator produced %q: %v", spec, err))
				}
				c.Count("specs", 1)
				// tiers overlap: a pair already explored by an earlier tier is skipped, so that pairs stay distinct
				cov := newCoverageDecl(tiers[:ti], spec, n, t.builtin, t.decl)
				for _, argv := range argvs {
					c.Beat()
					if cov.covers(argv) {
						c.Count("pairs_skipped_covered_by_earlier_tier", 1)
						continue
					}
					c.Count("C01:traces", 1)
					judgeLang(c, d, spec, node, argv, t.builtin, t.name)
				}
				// model traces: all words over the spec's own letters, longer than the argv bound
				k := 5
				if c.Thorough() {
					k = 6
				}
				if (n <= 3 || (c.Thorough() && n <= 4 && len(t.leaves) <= 4)) && !t.builtin {
					alpha := specAlphabet(node, d)
					if len(alpha) > 0 && len(alpha) <= 4 {
						kk := k
						if len(alpha) <= 2 {
							kk = k + 3 // long command lines over the spec's own two letters
						}
						for _, argv := range ref.Argvs(alpha, kk) {
							if len(argv) <= t.maxLen || cov.covers(argv) {
								continue
							}
							c.Beat()
							c.Count("C01:traces", 1)
							judgeLang(c, d, spec, node, argv, false, t.name+"+traces")
						}
					}
				}
			}
		}
		if c.Shard == 0 {
			c.Note("tier "+t.name, fmt.Sprintf("%d specs (size<=%d over %d leaves) x %d argvs (length<=%d over %d tokens)%s", nspecs, t.maxSize, len(t.leaves), len(argvs), t.maxLen, len(t.toks), map[bool]string{true: " built-in value types", false: " logging custom value types"}[t.builtin]))
		}
	}
}

// specAlphabet: one concrete token per leaf of the spec (options in two spellings when few letters).
func specAlphabet(n *ref.Node, d *ref.Decl) []string {
	seen := map[string]bool{}
	var out []string
	add := func(t string) {
		if !seen[t] {
			seen[t] = true
			out = append(out, t)
		}
	}
	var walk func(n *ref.Node)
	walk = func(n *ref.Node) {
		switch n.Op {
		case ref.NArg:
			add("x")
		case ref.NOpt:
			o := d.Opts[n.Idx]
			switch {
			case o.Flag:
				add(o.Names[0])
			case strings.HasPrefix(o.Names[0], "--"):
				add(o.Names[0] + "=v")
			default:
				add(o.Names[0] + "v")
			}
		case ref.NGroup:
			for _, i := range n.Group {
				o := d.Opts[i]
				if o.Flag {
					add(o.Names[0])
				} else {
					add(o.Names[1] + "=v")
				}
				if len(seen) >= 3 {
					break
				}
			}
		case ref.NEnd:
			add("--")
		}
		for _, k := range n.Kids {
			walk(k)
		}
	}
	walk(n)
	return out
}

// rerunPhase: a second Run on the same application instance (no environment involved) accepts exactly what a
// fresh instance accepts, and every container bound by the second command line holds exactly its values.
func rerunPhase(c *Ctx, d *ref.Decl, idx *int) {
	g := ref.NewSpecGen(leavesFull)
	toks := []string{"x", "--", "-a", "-b", "-ab", "-ov", "-o", "-z"}
	argvs := ref.Argvs(toks, 2)
	ns := 0
	for n := 1; n <= 2; n++ {
		for _, spec := range g.Specs(n) {
			ns++
			*idx++
			if !c.Mine(*idx) || !c.Begin("rerun", spec) {
				continue
			}
			node, _ := ref.ParseSpec(d, spec)
			for _, a2 := range argvs {
				ev := ref.Eval{D: d, Argv: a2}
				v := ev.Run(node)
				if v.Unclaimed {
					continue
				}
				if !v.Accept {
					ev2 := ref.Eval{D: d, Argv: a2, GroupAny: true}
					if ev2.Run(node).Accept {
						continue
					}
				}
				for _, a1 := range argvs {
					c.Beat()
					obs := runLang(d, spec, a2, langOpts{first: a1, hasFirst: true})
					c.Count("evaluations", 1)
					c.Count("second_runs_on_same_instance", 1)
					if v.Accept {
						c.Count("nontrivial", 1)
					}
					key := fmt.Sprintf("spec=%q first Run %q then, on the same instance, argv=%q", spec, a1, a2)
					cs := Case{"spec": spec, "argv": a2, "first": a1, "rerun": true}
					if obs.Panic != "" || len(obs.Exits) > 0 || obs.Accepted != v.Accept {
						if c.On("C01") {
							c.Violation("C01", key, cs, fmt.Sprintf("accepted=%v (as on a fresh instance)", v.Accept), obs.Summary())
						}
						continue
					}
					if !obs.Accepted || !c.On("C02") {
						continue
					}
					ok := false
					for _, b := range v.Binds {
						m := parseBindText(b)
						match := true
						for i := 0; i < d.NC(); i++ {
							want := m[d.ContainerName(i)]
							if len(want) > 0 && strings.Join(want, "\x00") != strings.Join(obs.Lists[i], "\x00") {
								match = false
							}
						}
						if match {
							ok = true
						}
					}
					if !ok {
						c.Violation("C02", key, cs, "every container bound by the second command line holds exactly its values: "+strings.Join(v.Binds, " / "), ref.BindTextOf(d, obs.Lists))
					}
				}
			}
		}
	}
	if c.Shard == 0 {
		c.Note("second runs", fmt.Sprintf("%d specs (size<=2) x %d x %d ordered pairs of command lines (length<=2 over %q): the second Run on the same instance", ns, len(argvs), len(argvs), toks))
	}
}

func declName(d *ref.Decl) string {
	if d.Name != "" {
		return d.Name
	}
	if len(d.Args) == 1 {
		return "alt"
	}
	return "std"
}

func replayLang(c *Ctx, cs Case) {
	d := ref.DeclByName(cStr(cs, "decl"))
	spec := cStr(cs, "spec")
	node, err := ref.ParseSpec(d, spec)
	if err != nil {
		fmt.Println("bad spec in replay:", err)
		return
	}
	if st, _ := cs["structural"].(bool); st {
		structuralOne(c, d, spec)
		return
	}
	if rr, _ := cs["rerun"].(bool); rr {
		argv, first := cStrs(cs, "argv"), cStrs(cs, "first")
		ev := ref.Eval{D: d, Argv: argv}
		v := ev.Run(node)
		obs := runLang(d, spec, argv, langOpts{first: first, hasFirst: true})
		key := fmt.Sprintf("spec=%q first Run %q then, on the same instance, argv=%q", spec, first, argv)
		if obs.Accepted != v.Accept && c.On("C01") {
			c.Violation("C01", key, cs, fmt.Sprintf("accepted=%v (as on a fresh instance)", v.Accept), obs.Summary())
		}
		if obs.Accepted && v.Accept && c.On("C02") {
			ok := false
			for _, b := range v.Binds {
				m := parseBindText(b)
				match := true
				for i := 0; i < d.NC(); i++ {
					if want := m[d.ContainerName(i)]; len(want) > 0 && strings.Join(want, "\x00") != strings.Join(obs.Lists[i], "\x00") {
						match = false
					}
				}
				ok = ok || match
			}
			if !ok {
				c.Violation("C02", key, cs, "every container bound by the second command line holds exactly its values: "+strings.Join(v.Binds, " / "), ref.BindTextOf(d, obs.Lists))
			}
		}
		return
	}
	b, _ := cs["builtin"].(bool)
	judgeLang(c, d, spec, node, cStrs(cs, "argv"), b, "replay")
}

func judgeLang(c *Ctx, d *ref.Decl, spec string, node *ref.Node, argv []string, builtin bool, tier string) {
	obs := runLang(d, spec, argv, langOpts{builtin: builtin})
	ev := ref.Eval{D: d, Argv: argv}
	v := ev.Run(node)
	c.Count("evaluations", 1)
	nontrivial := v.Accept || v.Consumed
	if nontrivial {
		c.Count("nontrivial", 1)
	}
	mkCase := func() Case {
		return Case{"spec": spec, "argv": argv, "argv_hex": hxs(argv), "builtin": builtin, "decl": declName(d), "go_test": langGoTest(spec, argv)}
	}
	key := fmt.Sprintf("spec=%q argv=%q", spec, argv)
	if builtin {
		key += " builtin-types"
	}
	if declName(d) == "alt" {
		key += " declarations: --aa/-a flag, -n/-m flag, --out/-o/--output valued, X"
	}
	if declName(d) == "sub" {
		key += " declared on the sub-command `sub`, command line prefixed with `sub`"
	}
	if declName(d) == "val2" {
		key += " declarations: -p/--pp valued, -o/--out valued, -a/--aa flag, X"
	}
	if declName(d) == "num" {
		key += " declarations: -4/--ipv4 flag, -6 flag, -i flag, -n/--nan flag, -f/--nan-ok flag, -p/--port valued, X"
	}
	if len(obs.Exits) > 0 || (obs.Panic != "") || obs.ActionRuns > 1 {
		// with a well-formed spec under ContinueOnError, Run never exits, never panics, runs the Action at most once
		if c.On("C01") {
			c.Violation("C01", key, mkCase(), "Run returns (nil and the Action ran once, or an error and it did not)", obs.Summary())
		}
		return
	}
	// ---- C01
	switch {
	case v.Accept:
		c.Count("C01:ref_accepts", 1)
		if !obs.Accepted && c.On("C01") {
			c.Violation("C01", key, mkCase(), "accepted (a derivation exists: "+strings.Join(v.Binds, " / ")+")", obs.Summary())
		}
	case v.Unclaimed:
		c.Count("C01:unclaimed_U1U2", 1)
	default:
		// rejected by the maximal-munch reading; the documentation reading of groups may differ
		ev2 := ref.Eval{D: d, Argv: argv, GroupAny: true}
		v2 := ev2.Run(node)
		if v2.Accept {
			c.Count("C01:unclaimed_group_reading_differs", 1)
		} else {
			c.Count("C01:ref_rejects", 1)
			if obs.Accepted && c.On("C01") {
				c.Violation("C01", key, mkCase(), "rejected (no derivation exists)", obs.Summary()+" bound "+ref.BindTextOf(d, obs.Lists))
			}
		}
	}
	// ---- C02
	if obs.Accepted && c.On("C02") {
		c.Count("C02:evaluations", 1)
		got := ref.BindTextOf(d, obs.Lists)
		if builtin {
			// a built-in bool holds the last value only
			got = ref.BindTextOf(d, obs.Lists)
		}
		if v.Accept && !v.Unclaimed {
			ok := false
			for _, b := range v.Binds {
				if b == got || (builtin && collapseFlags(d, b) == got) {
					ok = true
					break
				}
			}
			c.Count("C02:nontrivial", 1)
			if len(v.Binds) > 1 {
				c.Count("C02:ambiguous_cases", 1)
			}
			if !ok {
				c.Violation("C02", key, mkCase(), "bindings of one valid derivation: "+strings.Join(v.Binds, " / "), "bound "+got)
			}
		} else {
			c.Count("C02:unclaimed", 1)
		}
		// direct invariants, independent of the reference matcher (specs without spec-level --)
		if !node.HasEnd() {
			if msg := directBindingInvariants(d, argv, obs.Lists, builtin); msg != "" {
				c.Violation("C02", key, mkCase(), "every token bound exactly once, in order, to its own option/argument", msg+"; bound "+got)
			}
		}
	}
	// ---- C02 / C06, built-in types: handing every multi-valued declaration the same caller-owned default slice changes nothing
	// (a variable left at its default reads as "nothing bound"); declarations must not communicate through that slice
	if builtin && (c.On("C02") || c.On("C01")) {
		obs2 := runLang(d, spec, argv, langOpts{builtin: true, sharedDefault: true})
		c.Count("shared_default_runs", 1)
		if obs2.Accepted != obs.Accepted {
			if c.On("C01") {
				c.Violation("C01", key+" shared-default-slice", mkCase(), "same acceptance as without defaults: "+obs.Summary(), obs2.Summary())
			}
		} else if obs.Accepted && c.On("C02") {
			g1, g2 := ref.BindTextOf(d, obs.Lists), ref.BindTextOf(d, obs2.Lists)
			if g1 != g2 {
				c.Violation("C02", key+" shared-default-slice", mkCase(), "bound "+g1+" (as without a default; every multi-valued option and argument was declared with the same default slice)", "bound "+g2)
			}
		}
	}
	// ---- C15 (second stage): SetByUser of every container is true iff a command-line token was bound to it
	if c.On("C15") && obs.Accepted && v.Accept && !v.Unclaimed {
		c.Count("C15:evaluations", 1)
		any := false
		ok := false
		var wants []string
		for _, b := range v.Binds {
			m := parseBindText(b)
			match := true
			for i := 0; i < d.NC(); i++ {
				want := len(m[d.ContainerName(i)]) > 0
				if want {
					any = true
				}
				if obs.SetByUser[i] != want {
					match = false
				}
			}
			if match {
				ok = true
			}
			wants = append(wants, b)
		}
		if any {
			c.Count("C15:nontrivial", 1)
		}
		if !ok {
			c.Violation("C15", key, mkCase(), "SetByUser true exactly for the containers bound in one derivation: "+strings.Join(wants, " / "), fmt.Sprintf("SetByUser=%v (containers %v)", obs.SetByUser, containerNames(d)))
		} else if any && len(argv) >= 2 && c.WantSample("C15:lang") {
			c.Sample("C15:lang", Case{"spec": spec, "argv": argv, "containers": containerNames(d), "SetByUser": obs.SetByUser})
		}
	}
	if c.WantSample("C01:" + tier) && nontrivial && len(argv) >= 2 {
		c.Sample("C01:"+tier, Case{"spec": spec, "argv": argv, "ref_accepts": v.Accept, "ref_unclaimed": v.Unclaimed, "impl_accepted": obs.Accepted, "bound": ref.BindTextOf(d, obs.Lists)})
	}
	if c.On("C02") && obs.Accepted && len(v.Binds) > 1 && c.WantSample("C02:ambiguous") {
		c.Sample("C02:ambiguous", Case{"spec": spec, "argv": argv, "valid_derivations": v.Binds, "bound": ref.BindTextOf(d, obs.Lists)})
	}
}

// collapseFlags rewrites a=[true,true] into a=[true] (what a built-in bool can show).
func collapseFlags(d *ref.Decl, b string) string {
	for _, o := range d.Opts {
		if !o.Flag {
			continue
		}
		for strings.Contains(b, o.Key+"=[true,true") {
			b = strings.Replace(b, o.Key+"=[true,true", o.Key+"=[true", 1)
		}
	}
	return b
}

// directBindingInvariants checks, without the reference matcher, that on an
// accepted command line every option holds exactly its occurrences' values in
// order and the positional tokens are partitioned, in order, over the arguments.
func directBindingInvariants(d *ref.Decl, argv []string, lists [][]string, builtin bool) string {
	r := ref.ReadAll(d, argv)
	if r.Malformed {
		return "" // an accepted command line with a malformed token is C01's business
	}
	for i, o := range d.Opts {
		want := r.OptVals[i]
		got := lists[i]
		if builtin && o.Flag {
			if (len(want) > 0) != (len(got) > 0) {
				return fmt.Sprintf("flag %s: command line gives %v", o.Key, want)
			}
			continue
		}
		if strings.Join(want, "\x00") != strings.Join(got, "\x00") || len(want) != len(got) {
			return fmt.Sprintf("option %s: command line gives %q", o.Key, want)
		}
	}
	// positionals: multiset equality and each argument's list is a subsequence
	var all []string
	for j := range d.Args {
		l := lists[len(d.Opts)+j]
		all = append(all, l...)
		k := 0
		for _, p := range r.Positionals {
			if k < len(l) && l[k] == p {
				k++
			}
		}
		if k != len(l) {
			return fmt.Sprintf("argument %s holds %q which is not an in-order selection of the positionals %q", d.Args[j], l, r.Positionals)
		}
	}
	if len(all) != len(r.Positionals) {
		return fmt.Sprintf("%d positional tokens %q but %d bound", len(r.Positionals), r.Positionals, len(all))
	}
	cnt := map[string]int{}
	for _, p := range r.Positionals {
		cnt[p]++
	}
	for _, p := range all {
		cnt[p]--
	}
	for p, n := range cnt {
		if n != 0 {
			return fmt.Sprintf("positional %q bound %+d times too few", p, n)
		}
	}
	return ""
}

func langGoTest(spec string, argv []string) string {
	return fmt.Sprintf(`package cli

import ("flag"; "testing")

func TestVerifReplay(t *testing.T) {
	app := App("app", "")
	app.ErrorHandling = flag.ContinueOnError
	app.Spec = %q
	a := app.BoolOpt("a aa", false, ""); b := app.BoolOpt("b bb", false, ""); o := app.StringsOpt("o out", nil, "")
	x := app.StringsArg("X", nil, ""); y := app.StringsArg("Y", nil, "")
	ran := false
	app.Action = func() { ran = true }
	err := app.Run(%#v)
	t.Logf("ran=%%v err=%%v a=%%v b=%%v o=%%q X=%%q Y=%%q", ran, err, *a, *b, *o, *x, *y)
}
`, spec, append([]string{"app"}, argv...))
}

func containerNames(d *ref.Decl) []string {
	var n []string
	for i := 0; i < d.NC(); i++ {
		n = append(n, d.ContainerName(i))
	}
	return n
}

// coverage of a spec by earlier tiers: the (spec, argv) pairs an earlier tier already ran.
type tierCoverage struct {
	toks   []map[string]bool
	maxLen []int
}

func specLeaves(spec string) []string {
	return strings.FieldsFunc(strings.ReplaceAll(spec, "...", " "), func(r rune) bool { return strings.ContainsRune(" ()[]|", r) })
}

func newCoverage(earlier []langTier, spec string, size int, builtin bool) *tierCoverage {
	return newCoverageDecl(earlier, spec, size, builtin, "")
}

func newCoverageDecl(earlier []langTier, spec string, size int, builtin bool, decl string) *tierCoverage {
	cov := &tierCoverage{}
	leaves := specLeaves(spec)
	for _, e := range earlier {
		if e.builtin != builtin || size > e.maxSize || e.decl != decl {
			continue
		}
		ls := map[string]bool{}
		for _, l := range e.leaves {
			ls[l] = true
		}
		in := true
		for _, l := range leaves {
			if !ls[l] {
				in = false
			}
		}
		if !in {
			continue
		}
		ts := map[string]bool{}
		for _, t := range e.toks {
			ts[t] = true
		}
		cov.toks = append(cov.toks, ts)
		cov.maxLen = append(cov.maxLen, e.maxLen)
	}
	return cov
}

func (cov *tierCoverage) covers(argv []string) bool {
	for i, ts := range cov.toks {
		if len(argv) > cov.maxLen[i] {
			continue
		}
		all := true
		for _, a := range argv {
			if !ts[a] {
				all = false
				break
			}
		}
		if all {
			return true
		}
	}
	return false
}
