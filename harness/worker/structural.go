//go:build verif && verifstruct

package main

import (
	"flag"
	"fmt"
	"strings"

	cli "github.com/jawher/mow.cli"
	"github.com/jawher/mow.cli/internal/fsm"
	"github.com/jawher/mow.cli/internal/matcher"
	"github.com/jawher/mow.cli/internal/zverif/ref"
)

// dumpFSM reads the compiled automaton back: states numbered in BFS order from
// the start state, transitions labelled by matcher kind (from its priority) and
// text (from its String method).
func dumpFSM(root *fsm.State) *ref.NFA {
	ids := map[*fsm.State]int{root: 0}
	order := []*fsm.State{root}
	n := &ref.NFA{}
	for i := 0; i < len(order); i++ {
		s := order[i]
		n.Terminal = append(n.Terminal, s.Terminal)
		var es []ref.Edge
		for _, tr := range s.Transitions {
			to, ok := ids[tr.Next]
			if !ok {
				to = len(order)
				ids[tr.Next] = to
				order = append(order, tr.Next)
			}
			label := ""
			if !matcher.IsShortcut(tr.Matcher) {
				kind := map[int]string{1: "o", 2: "g", 8: "a", 9: "e"}[tr.Matcher.Priority()]
				label = kind + ":" + fmt.Sprint(tr.Matcher)
			}
			es = append(es, ref.Edge{Label: label, To: to})
		}
		n.Edges = append(n.Edges, es)
	}
	return n
}

func buildStdApp(d *ref.Decl, spec string) *cli.Cli {
	app := cli.App("app", "")
	app.ErrorHandling = flag.ContinueOnError
	app.Spec = spec
	for _, o := range d.Opts {
		app.Var(cli.VarOpt{Name: optName(o), Value: &logVal{isFlag: o.Flag}})
	}
	for _, a := range d.Args {
		app.Var(cli.VarArg{Name: a, Value: &logVal{}})
	}
	app.Action = func() {}
	return app
}

// structuralPhase: for every spec of the bound, compiled automaton == derivative automaton.
func structuralPhase(c *Ctx, d *ref.Decl, idx *int) {
	type st struct {
		leaves []string
		size   int
	}
	tiers := []st{{leavesFull, 4}, {leavesNest, 6}}
	if c.Thorough() {
		tiers = []st{{leavesFull, 5}, {leavesTiny, 6}, {leavesNest, 7}}
	}
	for _, t := range tiers {
		g := ref.NewSpecGen(t.leaves)
		ns := 0
		for n := 1; n <= t.size; n++ {
			for _, spec := range g.Specs(n) {
				ns++
				*idx++
				if !c.Mine(*idx) {
					continue
				}
				if !c.Begin("structural", spec) {
					continue
				}
				structuralOne(c, d, spec)
			}
		}
		if c.Shard == 0 {
			c.Note(fmt.Sprintf("structural size<=%d over %d leaves", t.size, len(t.leaves)), fmt.Sprintf("%d specs: compiled automaton vs partial-derivative automaton, product BFS, words of unbounded length", ns))
		}
	}
	depth := 2
	if c.Thorough() {
		depth = 3
	}
	towers := towerSpecs(towerPairs, depth)
	for _, spec := range towers {
		*idx++
		if !c.Mine(*idx) {
			continue
		}
		if !c.Begin("structural", spec) {
			continue
		}
		structuralOne(c, d, spec)
	}
	if c.Shard == 0 {
		c.Note("structural operator towers", fmt.Sprintf("%d specs W3(W1(a) op W2(b)), W any stack of <= %d of { [s], (s)..., [s]... }, leaf pairs %q", len(towers), depth, towerPairs))
	}
}

func structuralOne(c *Ctx, d *ref.Decl, spec string) {
	node, err := ref.ParseSpec(d, spec)
	if err != nil {
		panic(fmt.Sprintf("generator produced %q: %v", spec, err))
	}
	var root *fsm.State
	var cerr error
	var pv interface{}
	func() {
		defer func() { pv = recover() }()
		root, cerr = cli.VerifFSM(buildStdApp(d, spec))
	}()
	key := fmt.Sprintf("spec=%q", spec)
	if pv != nil || cerr != nil || root == nil {
		c.Violation("C01", key+" (compile)", Case{"spec": spec, "argv": []string{}, "structural": true}, "a well-formed spec compiles", fmt.Sprintf("error=%v panic=%v", cerr, pv))
		return
	}
	nfa := dumpFSM(root)
	r := ref.Equivalent(nfa, node)
	c.Count("C01:states", int64(r.States))
	c.Count("C01:transitions", int64(r.Transitions))
	c.Count("C01:structural_specs", 1)
	c.Max("max_fsm_states", int64(len(nfa.Terminal)))
	if c.WantSample("C01:structural") && r.States >= 4 {
		c.Sample("C01:structural", Case{"spec": spec, "compiled_states": len(nfa.Terminal), "letters": node.Letters(), "product_states": r.States, "product_transitions": r.Transitions, "equal": r.Equal})
	}
	if r.Equal && r.ForeignEdge == "" {
		return
	}
	c.Count("C01:structural_mismatch", 1)
	// Show it on the real Run: concretise the distinguishing word.
	for variant := 0; variant < 3; variant++ {
		argv := ref.Concretise(d, r.Word, variant)
		before := c.nviol["C01"]
		judgeLang(c, d, spec, node, argv, false, "structural-counterexample")
		c.Count("C01:traces", 1)
		if c.nviol["C01"] > before {
			return
		}
	}
	c.Count("C01:structural_mismatch_not_reproduced_concretely", 1)
	c.Sample("C01:structural_mismatch", Case{"spec": spec, "word": strings.Join(r.Word, " "), "compiled_accepts": r.ImplAccepts, "foreign_edge": r.ForeignEdge})
}
