//go:build verif

package main

import (
	"fmt"
	"strings"

	"github.com/jawher/mow.cli/internal/zverif/ref"
)

// C12: an environment value can only satisfy an option, never restrict the command line.

func init() {
	register(&CheckDef{Name: "env", Props: []string{"C12", "C15"}, Run: runEnv, Replay: replayEnv})
}

// the last one: a flag whose (valid) environment value is a false spelling is satisfied by it all the same
var envSets = []map[string]string{{"a": "true"}, {"o": "ev"}, {"a": "true", "o": "ev"}, {"a": "0"}}

var subDecl = ref.DeclByName("sub")

func runEnv(c *Ctx) {
	d := ref.Std()
	type tier struct {
		leaves []string
		size   int
		toks   []string
		alen   int
	}
	tiers := []tier{{leavesFull, 3, tokTiny, 3}, {leavesFull, 2, tokMid, 3}, {leavesNest, 4, []string{"x", "-a", "--"}, 3}}
	if c.Thorough() {
		tiers = []tier{{leavesFull, 3, tokMid, 3}, {leavesMid, 4, tokTiny, 3}, {leavesNest, 5, []string{"x", "-a", "--"}, 3}}
	}
	idx := 0
	var asLang []langTier
	for _, t := range tiers {
		asLang = append(asLang, langTier{leaves: t.leaves, maxSize: t.size, toks: t.toks, maxLen: t.alen})
	}
	for ti, t := range tiers {
		g := ref.NewSpecGen(t.leaves)
		argvs := ref.Argvs(t.toks, t.alen)
		readings := make([]ref.Reading, len(argvs))
		for i, a := range argvs {
			readings[i] = ref.ReadAll(d, a)
		}
		ns := 0
		for n := 1; n <= t.size; n++ {
			for _, spec := range g.Specs(n) {
				idx++
				ns++
				if !c.Mine(idx) {
					continue
				}
				if !c.Begin("env", spec) {
					continue
				}
				node, err := ref.ParseSpec(d, spec)
				if err != nil {
					panic(err)
				}
				cov := newCoverage(asLang[:ti], spec, n, false)
				for i, argv := range argvs {
					c.Beat()
					if cov.covers(argv) {
						continue
					}
					envCase(c, d, spec, node, argv, &readings[i])
					// the same program declared on a sub-command (its initializer reads the environment at Run time)
					if ti == 0 && n <= 2 {
						envCase(c, subDecl, spec, node, argv, &readings[i])
					}
				}
			}
		}
		if c.Shard == 0 {
			c.Note(fmt.Sprintf("tier %d", ti), fmt.Sprintf("%d specs (size<=%d over %d leaves) x %d argvs (length<=%d over %q) x 3 non-empty subsets of {a (flag, $VQ_A=true), o (valued, $VQ_O=ev)} and {a: $VQ_A=0}; specs of size <= 2 of the first tier also with the program declared on a sub-command", ns, t.size, len(t.leaves), len(argvs), t.alen, t.toks))
		}
	}
}

func replayEnv(c *Ctx, cs Case) {
	d := ref.Std()
	if cStr(cs, "decl") == "sub" {
		d = subDecl
	}
	spec := cStr(cs, "spec")
	node, err := ref.ParseSpec(d, spec)
	if err != nil {
		return
	}
	argv := cStrs(cs, "argv")
	r := ref.ReadAll(d, argv)
	envCase(c, d, spec, node, argv, &r)
}

func envCase(c *Ctx, d *ref.Decl, spec string, node *ref.Node, argv []string, r *ref.Reading) {
	base := runLang(d, spec, argv, langOpts{})
	hasEnd := node.HasEnd()
	for _, env := range envSets {
		obs := runLang(d, spec, argv, langOpts{env: env})
		c.Count("evaluations", 1)
		key := fmt.Sprintf("spec=%q argv=%q env=%s", spec, argv, envText(env))
		if d.Nested {
			key += " declared on the sub-command `sub`"
		}
		cs := func() Case { return Case{"spec": spec, "argv": argv, "env": env, "decl": declName(d)} }
		if obs.Panic != "" || len(obs.Exits) > 0 {
			c.Violation("C12", key, cs(), "Run returns", obs.Summary())
			continue
		}
		if base.Accepted || obs.Accepted {
			c.Count("nontrivial", 1)
		}
		// the same with the built-in value types (single-valued bool, multi-valued strings): whether an option is
		// satisfied by its environment value does not depend on the type holding it, nor on what the value says
		if c.On("C12") && (len(env) == 2 || env["a"] == "0") {
			ob := runLang(d, spec, argv, langOpts{env: env, builtin: true})
			c.Count("builtin_type_runs", 1)
			if ob.Accepted != obs.Accepted || ob.Panic != "" {
				c.Violation("C12", key+" builtin-types", cs(), "same acceptance as with custom value types: "+obs.Summary(), ob.Summary())
				continue
			}
		}
		// C15 (third stage): an option whose value came from the environment only is not "set by user"
		if c.On("C15") && obs.Accepted && !hasEnd && !r.Malformed {
			c.Count("C15:evaluations", 1)
			c.Count("C15:nontrivial", 1)
			for i, o := range d.Opts {
				want := len(r.OptVals[i]) > 0
				if obs.SetByUser[i] != want {
					c.Violation("C15", key, cs(), fmt.Sprintf("SetByUser of option %s = %v (command line gives %q, environment %q)", o.Key, want, r.OptVals[i], env[o.Key]), fmt.Sprintf("SetByUser=%v", obs.SetByUser[i]))
					break
				}
			}
		}
		if !c.On("C12") {
			continue
		}
		// (1) monotonic: accepted without the variables => accepted with them
		if base.Accepted && !obs.Accepted {
			c.Violation("C12", key, cs(), "accepted (it is accepted with the variables unset)", obs.Summary())
			continue
		}
		if c.WantSample("env") && obs.Accepted && !base.Accepted && len(argv) >= 1 {
			c.Sample("env", Case{"spec": spec, "argv": argv, "env": envText(env), "accepted_without_env": base.Accepted, "accepted_with_env": obs.Accepted, "bound": ref.BindTextOf(d, obs.Lists)})
		}
		if c.WantSample("env-written") && obs.Accepted && base.Accepted && len(argv) >= 2 {
			c.Sample("env-written", Case{"spec": spec, "argv": argv, "env": envText(env), "bound_without_env": ref.BindTextOf(d, base.Lists), "bound_with_env": ref.BindTextOf(d, obs.Lists)})
		}
		// (2) values
		if obs.Accepted && !hasEnd && !r.Malformed {
			for i, o := range d.Opts {
				written := r.OptVals[i]
				got := obs.Lists[i]
				switch {
				case len(written) > 0:
					if strings.Join(written, "\x00") != strings.Join(got, "\x00") {
						c.Violation("C12", key, cs(), fmt.Sprintf("option %s holds exactly the command-line values %q", o.Key, written), fmt.Sprintf("%q", got))
					}
				case env[o.Key] != "":
					if len(got) != 1 || got[0] != env[o.Key] {
						c.Violation("C12", key, cs(), fmt.Sprintf("option %s (absent from the command line) holds its environment value %q", o.Key, env[o.Key]), fmt.Sprintf("%q", got))
					}
				default:
					if len(got) != 0 {
						c.Violation("C12", key, cs(), fmt.Sprintf("option %s (absent, no environment) holds nothing", o.Key), fmt.Sprintf("%q", got))
					}
				}
			}
		}
		// (3) against the reference: an env-backed single option atom is satisfied when absent
		mentions := false
		for i, o := range d.Opts {
			if env[o.Key] != "" && len(r.OptVals[i]) > 0 {
				mentions = true
			}
		}
		if mentions || r.Malformed {
			c.Count("not_judged_by_reference", 1)
			continue
		}
		eopts := map[int]bool{}
		for i, o := range d.Opts {
			if env[o.Key] != "" {
				eopts[i] = true
			}
		}
		strict := ref.Optionalise(node, eopts, false)
		ev := ref.Eval{D: d, Argv: argv}
		vs := ev.Run(strict)
		if vs.Accept {
			c.Count("ref_strict_accepts", 1)
			if !obs.Accepted {
				c.Violation("C12", key, cs(), "accepted: the absent option is satisfied by its environment value", obs.Summary())
			}
			continue
		}
		if vs.Unclaimed {
			c.Count("unclaimed_U1U2", 1)
			continue
		}
		loose := ref.Optionalise(node, eopts, true)
		ev2 := ref.Eval{D: d, Argv: argv, GroupAny: true}
		vl := ev2.Run(loose)
		if vl.Accept || vl.Unclaimed {
			c.Count("unclaimed_U3_group_satisfied_by_env_alone", 1)
			continue
		}
		c.Count("ref_loose_rejects", 1)
		if obs.Accepted {
			c.Violation("C12", key, cs(), "rejected: no derivation exists even with every env-backed option optional", obs.Summary()+" bound "+ref.BindTextOf(d, obs.Lists))
		}
	}
}
