//go:build verif

package main

import (
	"encoding/json"
	"flag"
	"fmt"
	"os"
	"strings"

	cli "github.com/jawher/mow.cli"
)

// C17: the help of a command lists exactly what was declared, in the documented order.

func init() {
	register(&CheckDef{Name: "helptext", Props: []string{"C17"}, Run: runHelpText, Replay: replayHelpText})
}

type hItem struct {
	Names string `json:"names"` // option names / argument name / command aliases
	Env   string `json:"env"`
	Typ   int    `json:"typ"` // index into vtypes
	NZ    bool   `json:"nz"`
	Hide  bool   `json:"hide"` // HideValue / Hidden
	Desc  string `json:"desc"`
	Long  string `json:"long"` // commands: LongDesc
}

type hDecl struct {
	Args  []hItem `json:"args"`
	Opts  []hItem `json:"opts"`
	Cmds  []hItem `json:"cmds"`
	Spec  string  `json:"spec"`
	Desc  string  `json:"desc"`
	Long  string  `json:"long"`
	Depth int     `json:"depth"`
	LongH bool    `json:"longhelp"`
}

// how each type shows its declared default in the help (empty = nothing shown); 0-6 are the built-in types,
// 7-10 custom flag.Value types: 7 a bool-like switch that is off (String() "false", no IsDefault: shown),
// 8 a counter (IsBoolFlag, String() "0"/"3": shown), 9 a type whose IsDefault() says true (hidden) / false (shown),
// 10 a plain custom value (String() "1h0m0s" / "2h0m0s": shown)
var hDefaults = [][2]string{
	{"", "true"}, {"", `"dflt"`}, {"0", "7"}, {"0", "1.5"}, {"", `["d1", "d2"]`}, {"", "[7, 8]"}, {"", "[1.5, 2.5]"},
	{"false", "true"}, {"0", "3"}, {"", "custom-set"}, {"1h0m0s", "2h0m0s"},
	// 11: a plain custom value with a long rendering (more than 64 characters, some of them multi-byte): shown in full
	{"https://example.org/a/long/path/that/goes/on/and/on/and/on/and/ends/here", "https://example.org/ünïcödé/path/that/goes/on/and/on/and/on/and/ends/hére"},
}

type hSwitch struct{ s string }

func (v *hSwitch) Set(x string) error { v.s = x; return nil }
func (v *hSwitch) String() string     { return v.s }
func (v *hSwitch) IsBoolFlag() bool   { return true }

type hPlain struct{ s string }

func (v *hPlain) Set(x string) error { v.s = x; return nil }
func (v *hPlain) String() string     { return v.s }

type hDefaulted struct {
	s   string
	def bool
}

func (v *hDefaulted) Set(x string) error { v.s = x; v.def = false; return nil }
func (v *hDefaulted) String() string     { return v.s }
func (v *hDefaulted) IsDefault() bool    { return v.def }

func hNorm(s string) []string {
	var out []string
	for _, l := range strings.Split(s, "\n") {
		f := strings.Fields(l)
		if len(f) > 0 {
			out = append(out, strings.Join(f, " "))
		}
	}
	return out
}

// the closing hint ("Run '<path> COMMAND --help' ...") is not part of what the property fixes: not compared
func hDropFooter(rows []string) []string {
	if n := len(rows); n > 0 && strings.HasPrefix(rows[n-1], "Run '") {
		return rows[:n-1]
	}
	return rows
}

func hOptNames(names string) string {
	short, long := "", ""
	for _, n := range strings.Fields(names) {
		if len(n) == 1 && short == "" {
			short = "-" + n
		}
		if len(n) > 1 && long == "" {
			long = "--" + n
		}
	}
	switch {
	case short != "" && long != "":
		return short + ", " + long
	case short != "":
		return short
	}
	return long
}

func hRowText(it hItem) string {
	var parts []string
	if strings.TrimSpace(it.Desc) != "" {
		parts = append(parts, it.Desc)
	}
	if f := strings.Fields(it.Env); len(f) > 0 {
		parts = append(parts, "(env $"+strings.Join(f, ", $")+")")
	}
	if d := hDefaults[it.Typ][map[bool]int{false: 0, true: 1}[it.NZ]]; d != "" && !it.Hide {
		parts = append(parts, "(default "+d+")")
	}
	return strings.Join(parts, " ")
}

// hExpected is the reference renderer: the ordered rows of the help, whitespace-normalised.
func hExpected(d *hDecl) []string {
	path := "app"
	if d.Depth == 1 {
		path = "app sub"
	}
	spec := d.Spec
	if spec == "" {
		var p []string
		if len(d.Opts) > 0 {
			p = append(p, "[OPTIONS]")
		}
		for _, a := range d.Args {
			p = append(p, a.Names)
		}
		spec = strings.Join(p, " ")
	}
	usage := "Usage: " + path
	if spec != "" {
		usage += " " + spec
	}
	if len(d.Cmds) > 0 {
		usage += " COMMAND [arg...]"
	}
	rows := []string{usage}
	desc := d.Desc
	if d.LongH && d.Long != "" {
		desc = d.Long
	}
	rows = append(rows, hNorm(desc)...)
	if len(d.Args) > 0 {
		rows = append(rows, "Arguments:")
		for _, a := range d.Args {
			rows = append(rows, hNorm(a.Names+" "+hRowText(a))...)
		}
	}
	if len(d.Opts) > 0 {
		rows = append(rows, "Options:")
		for _, o := range d.Opts {
			rows = append(rows, hNorm(hOptNames(o.Names)+" "+hRowText(o))...)
		}
	}
	shown := 0
	for _, c := range d.Cmds {
		if !c.Hide {
			shown++
		}
	}
	if shown > 0 {
		rows = append(rows, "Commands:")
		for _, c := range d.Cmds {
			if !c.Hide {
				rows = append(rows, hNorm(strings.Join(strings.Fields(c.Names), ", ")+" "+c.Desc)...)
			}
		}
		rows = append(rows, "Run '"+path+" COMMAND --help' for more information on a command.")
	}
	return rows
}

// the caller-owned default slice shared by all []string items of one declaration (as a program with a
// package-level default would do); the library must never write through it
var hSharedStrings []string

func hDeclare(cmd *cli.Cmd, it hItem, asOpt bool) {
	n, e, d, h := it.Names, it.Env, it.Desc, it.Hide
	switch it.Typ {
	case 0:
		if asOpt {
			cmd.Bool(cli.BoolOpt{Name: n, EnvVar: e, Desc: d, HideValue: h, Value: it.NZ})
		} else {
			cmd.Bool(cli.BoolArg{Name: n, EnvVar: e, Desc: d, HideValue: h, Value: it.NZ})
		}
	case 1:
		v := map[bool]string{false: "", true: "dflt"}[it.NZ]
		if asOpt {
			cmd.String(cli.StringOpt{Name: n, EnvVar: e, Desc: d, HideValue: h, Value: v})
		} else {
			cmd.String(cli.StringArg{Name: n, EnvVar: e, Desc: d, HideValue: h, Value: v})
		}
	case 2:
		v := map[bool]int{false: 0, true: 7}[it.NZ]
		if asOpt {
			cmd.Int(cli.IntOpt{Name: n, EnvVar: e, Desc: d, HideValue: h, Value: v})
		} else {
			cmd.Int(cli.IntArg{Name: n, EnvVar: e, Desc: d, HideValue: h, Value: v})
		}
	case 3:
		v := map[bool]float64{false: 0, true: 1.5}[it.NZ]
		if asOpt {
			cmd.Float64(cli.Float64Opt{Name: n, EnvVar: e, Desc: d, HideValue: h, Value: v})
		} else {
			cmd.Float64(cli.Float64Arg{Name: n, EnvVar: e, Desc: d, HideValue: h, Value: v})
		}
	case 4:
		var v []string
		if it.NZ {
			v = hSharedStrings
		}
		if asOpt {
			cmd.Strings(cli.StringsOpt{Name: n, EnvVar: e, Desc: d, HideValue: h, Value: v})
		} else {
			cmd.Strings(cli.StringsArg{Name: n, EnvVar: e, Desc: d, HideValue: h, Value: v})
		}
	case 5:
		var v []int
		if it.NZ {
			v = []int{7, 8}
		}
		if asOpt {
			cmd.Ints(cli.IntsOpt{Name: n, EnvVar: e, Desc: d, HideValue: h, Value: v})
		} else {
			cmd.Ints(cli.IntsArg{Name: n, EnvVar: e, Desc: d, HideValue: h, Value: v})
		}
	case 7, 8, 9, 10, 11:
		text := hDefaults[it.Typ][map[bool]int{false: 0, true: 1}[it.NZ]]
		var val flag.Value
		switch it.Typ {
		case 7, 8:
			val = &hSwitch{s: text}
		case 9:
			val = &hDefaulted{s: map[bool]string{false: "custom-default", true: "custom-set"}[it.NZ], def: !it.NZ}
		default:
			val = &hPlain{s: text}
		}
		if asOpt {
			cmd.Var(cli.VarOpt{Name: n, EnvVar: "", Desc: d, HideValue: h, Value: val})
		} else {
			cmd.Var(cli.VarArg{Name: n, EnvVar: "", Desc: d, HideValue: h, Value: val})
		}
	case 6:
		var v []float64
		if it.NZ {
			v = []float64{1.5, 2.5}
		}
		if asOpt {
			cmd.Floats64(cli.Floats64Opt{Name: n, EnvVar: e, Desc: d, HideValue: h, Value: v})
		} else {
			cmd.Floats64(cli.Floats64Arg{Name: n, EnvVar: e, Desc: d, HideValue: h, Value: v})
		}
	}
}

func hBuildFull(d *hDecl) *cli.Cli {
	hSharedStrings = []string{"d1", "d2"}
	fill := func(cmd *cli.Cmd) {
		cmd.Spec = d.Spec
		cmd.LongDesc = d.Long
		for _, a := range d.Args {
			hDeclare(cmd, a, false)
		}
		for _, o := range d.Opts {
			hDeclare(cmd, o, true)
		}
		for _, c := range d.Cmds {
			c := c
			cmd.Command(c.Names, c.Desc, func(s *cli.Cmd) {
				s.Hidden = c.Hide
				s.LongDesc = c.Long
				s.Action = func() {}
			})
		}
		cmd.Action = func() {}
	}
	if d.Depth == 0 {
		app := cli.App("app", d.Desc)
		app.ErrorHandling = flag.ContinueOnError
		fill(app.Cmd)
		return app
	}
	app := cli.App("app", "")
	app.ErrorHandling = flag.ContinueOnError
	app.Command("sub", d.Desc, fill)
	return app
}

func remarshal(in interface{}, out interface{}) {
	b, _ := json.Marshal(in)
	json.Unmarshal(b, out)
}

// helpDeepPaths: the usage line of a deeply nested command carries its own full path, whichever sibling was
// declared / initialised last.
func helpDeepPaths(c *Ctx) {
	for depth := 2; depth <= 8; depth++ {
		for target := 0; target < 3; target++ {
			for _, long := range []bool{false, true} {
				app := cli.App("app", "")
				app.ErrorHandling = flag.ContinueOnError
				names := []string{"app"}
				var build func(cmd *cli.Cmd, lvl int)
				build = func(cmd *cli.Cmd, lvl int) {
					cmd.Action = func() {}
					if lvl == depth {
						return
					}
					for sib := 0; sib < 3; sib++ {
						sib := sib
						cmd.Command(fmt.Sprintf("l%ds%d", lvl+1, sib), "", func(sub *cli.Cmd) { build(sub, lvl+1) })
					}
				}
				build(app.Cmd, 0)
				argv := []string{"app"}
				for lvl := 1; lvl <= depth; lvl++ {
					sib := (target + lvl) % 3
					if lvl == depth {
						sib = target
					}
					argv = append(argv, fmt.Sprintf("l%ds%d", lvl, sib))
					names = append(names, fmt.Sprintf("l%ds%d", lvl, sib))
				}
				if long {
					argv = append(argv, "--help")
				} else {
					argv = append(argv, "--no-such-option")
				}
				o := runIsolated(func() error { return app.Run(argv) })
				c.Count("evaluations", 1)
				c.Count("nontrivial", 1)
				c.Count("deep_paths", 1)
				want := "Usage: " + strings.Join(names, " ")
				if !hasLine(strings.Join(hNorm(o.Stderr), "\n"), want) {
					c.Violation("C17", fmt.Sprintf("deep tree: help of %q (3 siblings per level)", argv[1:]), Case{"deep": true}, "usage line `"+want+"`", fmt.Sprintf("%q", hNorm(o.Stderr)))
				}
			}
		}
	}
	c.Note("deep paths", "chains of depth 2..8 with three siblings on every level: the usage line of the addressed command (each sibling position, short and long help) must show its own full path")
}

// helpAfterBinding: on an application whose options and arguments already received command-line values
// (a first, accepted Run), a help request on the same instance still shows the DECLARED defaults.
func helpAfterBinding(c *Ctx, d *hDecl) {
	if d.Depth != 0 || !d.LongH || d.Spec != "" || len(d.Args)+len(d.Opts) == 0 {
		return
	}
	os.Setenv("VQ_H1", hEnvValue(d))
	app := hBuildFull(d)
	os.Unsetenv("VQ_H1")
	argv := []string{"app"}
	for _, o := range d.Opts {
		n := strings.Fields(o.Names)[0]
		dash := "--"
		if len(n) == 1 {
			dash = "-"
		}
		switch {
		case o.Typ == 0 || o.Typ == 7 || o.Typ == 8:
			argv = append(argv, dash+n)
		case o.Typ >= len(vtypes):
			argv = append(argv, dash+n+"=given")
		default:
			argv = append(argv, dash+n+"="+vtypes[o.Typ].cmd[0])
		}
	}
	for _, a := range d.Args {
		if a.Typ >= len(vtypes) {
			argv = append(argv, "given")
		} else {
			argv = append(argv, vtypes[a.Typ].cmd[0])
		}
	}
	o1 := runIsolated(func() error { return app.Run(argv) })
	if !(o1.Returned && o1.Err == nil) {
		return
	}
	o := runIsolated(func() error { return app.Run([]string{"app", "--help"}) })
	c.Count("evaluations", 1)
	c.Count("help_after_binding", 1)
	got, want := hDropFooter(hNorm(o.Stderr)), hDropFooter(hExpected(d))
	if strings.Join(got, "\n") != strings.Join(want, "\n") {
		c.Violation("C17", fmt.Sprintf("help of %s after a first Run %q on the same instance", jstr(d), argv[1:]), Case{"decl": d, "after_binding": true}, strings.Join(want, " ⏎ "), strings.Join(got, " ⏎ "))
	}
}

func runHelpText(c *Ctx) {
	if c.Shard == 0 && c.Begin("helptext-deep") {
		helpDeepPaths(c)
	}
	idx := 0
	do := func(d hDecl) {
		for depth := 0; depth < 2; depth++ {
			for _, lh := range []bool{false, true} {
				idx++
				if !c.Mine(idx) {
					continue
				}
				d.Depth, d.LongH = depth, lh
				if !c.Begin("helptext", fmt.Sprint(idx)) {
					continue
				}
				dd := d
				helpTextCase(c, &dd)
				helpAfterBinding(c, &dd)
			}
		}
	}
	descs := []string{"", "one line, 100% %s %d", "first line\nsecond line\n  third line  "}
	envs := []string{"", "VQ_H1", "VQ_H1 VQ_H2", "VQ_H1  VQ_H2\tVQ_H3 "}
	optNames := []string{"f", "force", "f force", "force f", "f g", "force fast"}
	base := hDecl{Desc: "the command (50% %s done)", Long: "the long\ndescription at 100%d %v"}
	// (1) every single-item declaration over the full variant product
	for _, names := range optNames {
		for _, env := range envs {
			for typ := range hDefaults {
				if typ >= len(vtypes) && env != "" {
					continue // custom types: no environment here
				}
				for _, nz := range []bool{false, true} {
					for _, hide := range []bool{false, true} {
						for _, desc := range descs {
							d := base
							d.Opts = []hItem{{Names: names, Env: env, Typ: typ, NZ: nz, Hide: hide, Desc: desc}}
							do(d)
						}
					}
				}
			}
		}
	}
	for _, env := range envs {
		for typ := range hDefaults {
			if typ >= len(vtypes) && env != "" {
				continue
			}
			for _, nz := range []bool{false, true} {
				for _, hide := range []bool{false, true} {
					for _, desc := range descs {
						d := base
						d.Args = []hItem{{Names: "ARG", Env: env, Typ: typ, NZ: nz, Hide: hide, Desc: desc}}
						do(d)
					}
				}
			}
		}
	}
	for _, al := range []string{"one", "one two", "one two three"} {
		for _, hid := range []bool{false, true} {
			for _, desc := range descs[:2] {
				for _, long := range []string{"", "long description of the sub-command"} {
					for _, appLong := range []string{"", "the long\ndescription, 7% %s"} {
						for _, spec := range []string{"", "[-f]"} {
							d := base
							d.Long = appLong
							d.Cmds = []hItem{{Names: al, Hide: hid, Desc: desc, Long: long}}
							if spec != "" {
								d.Opts = []hItem{{Names: "f", Typ: 0}}
								d.Spec = spec
							}
							do(d)
						}
					}
				}
			}
		}
	}
	// (2) every declaration set of <= 2 arguments + <= 2 options + <= 2 sub-commands over 6 variants per item
	argVars := []hItem{
		{Names: "SRC", Typ: 1, Desc: "source"},
		{Names: "DST", Typ: 4, NZ: true, Env: "VQ_H1", Desc: "destination\nsecond line"},
		{Names: "N", Typ: 2, NZ: true, Hide: true, Desc: "count"},
		{Names: "RATE", Typ: 3, Env: "VQ_H1  VQ_H2"},
		{Names: "FLAG", Typ: 0, NZ: true, Desc: "a bool"},
		{Names: "IDS", Typ: 5, NZ: true, Desc: "ids"},
	}
	optVars := []hItem{
		{Names: "f force", Typ: 0, Desc: "force it"},
		{Names: "output o", Typ: 1, NZ: true, Env: "VQ_H1", Desc: "where\nto write"},
		{Names: "n", Typ: 2, Desc: ""},
		{Names: "rate", Typ: 3, NZ: true, Hide: true, Desc: "hidden value"},
		{Names: "t tag", Typ: 4, NZ: true, Env: "VQ_H1 VQ_H2", Desc: "tags"},
		{Names: "x y", Typ: 6, NZ: true, Desc: "floats"},
	}
	cmdVars := []hItem{
		{Names: "run", Desc: "run it"},
		{Names: "list ls", Desc: "list 10% of the things %s", Long: "long list"},
		{Names: "hid1 hid2", Hide: true, Desc: "must not appear"},
		{Names: "a b c", Desc: ""},
		{Names: "zap", Hide: true},
		{Names: "multi", Desc: "line one"},
	}
	pick := func(vars []hItem) [][]hItem {
		out := [][]hItem{nil}
		for i := range vars {
			out = append(out, []hItem{vars[i]})
		}
		for i := range vars {
			for j := range vars {
				if i != j {
					out = append(out, []hItem{vars[i], vars[j]})
					if c.Thorough() {
						for k := range vars {
							if k != i && k != j && k > j {
								out = append(out, []hItem{vars[i], vars[j], vars[k]})
							}
						}
					}
				}
			}
		}
		return out
	}
	nsets := 0
	for _, as := range pick(argVars) {
		for _, os := range pick(optVars) {
			for _, cs := range pick(cmdVars) {
				nsets++
				d := base
				d.Args, d.Opts, d.Cmds = as, os, cs
				do(d)
			}
		}
	}
	c.Note("single items", "options: 6 name lists x 3 env lists x 7 built-in types and 4 custom flag.Value types (bool-like switch, counter, IsDefault-implementing, plain) x {zero, non-zero default} x HideValue x 3 descriptions (empty, one line, three lines); arguments alike; sub-commands: 1-3 aliases x Hidden x description x LongDesc x application LongDesc x spec given/implicit")
	c.Note("sets", fmt.Sprintf("%d declaration sets of <= 2 arguments + <= 2 options + <= 2 sub-commands over 6 variants per item; every set at depth 0 (the application) and depth 1 (a sub-command), short help (rejection path) and long help (--help)", nsets))
}

func replayHelpText(c *Ctx, cs Case) {
	if deep, _ := cs["deep"].(bool); deep {
		helpDeepPaths(c)
		return
	}
	var d hDecl
	remarshal(cs["decl"], &d)
	if ab, _ := cs["after_binding"].(bool); ab {
		helpAfterBinding(c, &d)
		return
	}
	helpTextCase(c, &d)
}

func helpTextCase(c *Ctx, d *hDecl) {
	os.Setenv("VQ_H1", hEnvValue(d))
	app := hBuildFull(d)
	argv := []string{"app"}
	if d.Depth == 1 {
		argv = append(argv, "sub")
	}
	if d.LongH {
		argv = append(argv, "--help")
	} else {
		argv = append(argv, "--no-such-option")
	}
	o := runIsolated(func() error { return app.Run(argv) })
	os.Unsetenv("VQ_H1")
	c.Count("evaluations", 1)
	if len(d.Args)+len(d.Opts)+len(d.Cmds) >= 2 {
		c.Count("nontrivial", 1)
	}
	key := fmt.Sprintf("help of %s", jstr(d))
	cs := func() Case { return Case{"decl": d} }
	if o.Panicked || len(o.Exits) > 0 {
		c.Violation("C17", key, cs(), "help is printed", fmt.Sprintf("panic=%v exits=%v", safeSprint(o.PanicVal), o.Exits))
		return
	}
	got := hDropFooter(hNorm(o.Stderr))
	if !d.LongH && len(got) > 0 && strings.HasPrefix(got[0], "Error:") {
		got = got[1:]
	}
	want := hDropFooter(hExpected(d))
	if strings.Join(got, "\n") != strings.Join(want, "\n") {
		c.Violation("C17", key, cs(), strings.Join(want, " ⏎ "), strings.Join(got, " ⏎ "))
		return
	}
	// asking again changes nothing: the same help on the second and third request of the same instance
	if d.Depth == 0 {
		for k := 2; k <= 3; k++ {
			os.Setenv("VQ_H1", hEnvValue(d))
			o2 := runIsolated(func() error { return app.Run(argv) })
			os.Unsetenv("VQ_H1")
			c.Count("repeated_help_requests", 1)
			if o2.Panicked || strings.Join(hNorm(o2.Stderr), "\n") != strings.Join(hNorm(o.Stderr), "\n") {
				c.Violation("C17", key+fmt.Sprintf(" (help request %d on the same instance)", k), cs(), "the same help as the first time: "+strings.Join(hNorm(o.Stderr), " ⏎ "), fmt.Sprintf("panicked=%v ", o2.Panicked)+strings.Join(hNorm(o2.Stderr), " ⏎ "))
				return
			}
		}
	}
	for _, cm := range d.Cmds {
		if cm.Hide {
			for _, al := range strings.Fields(cm.Names) {
				appears := false
				for _, w := range strings.FieldsFunc(o.Stderr, func(r rune) bool { return !(r == '_' || r >= '0' && r <= '9' || r >= 'a' && r <= 'z' || r >= 'A' && r <= 'Z') }) {
					if w == al {
						appears = true
					}
				}
				if appears {
					c.Violation("C17", key+" (hidden)", cs(), "hidden command "+al+" never appears", o.Stderr)
				}
			}
		}
	}
	if len(d.Args)+len(d.Opts)+len(d.Cmds) >= 3 && c.WantSample(fmt.Sprintf("depth%d-long%v", d.Depth, d.LongH)) {
		c.Sample(fmt.Sprintf("depth%d-long%v", d.Depth, d.LongH), Case{"declaration": d, "help_rows": got})
	}
}

// the environment variable VQ_H1 is SET (to a valid value of the first item naming it) while the
// application is declared: the help must still show the declared default, not the environment value
func hEnvValue(d *hDecl) string {
	for _, l := range [][]hItem{d.Args, d.Opts} {
		for _, it := range l {
			if strings.Contains(it.Env, "VQ_H1") {
				if it.Typ < len(vtypes) {
					return vtypes[it.Typ].valid
				}
			}
		}
	}
	return "1"
}
