//go:build verif

package main

import (
	"flag"
	"fmt"
	"math"
	"os"
	"strconv"
	"strings"

	cli "github.com/jawher/mow.cli"
)

// C13: typed values agree with strconv; unparsable command-line values are usage errors,
// unparsable environment values are ignored; strings are bound byte for byte.

func init() {
	register(&CheckDef{Name: "conv", Props: []string{"C13"}, Run: runConv, Replay: replayConv})
}

var convAlpha = []string{"0", "1", "9", "-", "+", ".", "e", "E", "x", "_", "i", "n", "f", "a", "t", "r", "u", "T", "F", " "}

var convEdges = []string{
	"2147483647", "2147483648", "-2147483648", "-2147483649", "4294967296",
	"9223372036854775807", "9223372036854775808", "-9223372036854775808", "-9223372036854775809", "18446744073709551616",
	"+9223372036854775807", "00000000000000000000009", "-0", "+0", "0x10", "0X1F", "0b101", "0o17", "017", "1_000", "1__0", "_1",
	strings.Repeat("9", 400), "-" + strings.Repeat("9", 400), "0." + strings.Repeat("3", 400), strings.Repeat("1", 310) + ".5",
	"1e308", "1e309", "-1e309", "1.7976931348623157e308", "1.7976931348623159e308", "4.9e-324", "2e-324", "1e-400", "0x1p-2", "0x1.8p1", "0x1p1024", "1p3",
	"Inf", "+Inf", "-Inf", "inf", "infinity", "Infinity", "INFINITY", "NaN", "nan", "NAN", "+NaN", "-nan", "nan(1)",
	"1e", "1e+", ".e1", ".", "-.5", "+.5e-3", "5.", "1E5", "1e5", "1e+5", "1,5", "1 5", " 1", "1 ", "\t1", "1\n",
	"１２", "٣", "²", "1 5", "½", " 1",
	"true", "false", "TRUE", "FALSE", "True", "False", "tRuE", "t", "f", "T", "F", "1", "0", "yes", "no", "on", "off", "y", "n", "true ", " true", "truee", "tru",
	"a\x00b", "\x00", "é", "\xff\xfe", "=", "==5", "=5", "-", "--", "-x", "--xx", "-5", "--5", "- 5", "",
}

type ctype struct {
	name  string
	multi bool
	isStr bool
	// parse with strconv: ok and canonical text of the value
	parse func(s string) (bool, string)
	decl  func(cmd *cli.Cmd, asOpt bool, name, env string) func() string
}

func fbits(f float64) string {
	if math.IsNaN(f) {
		return "NaN"
	}
	return fmt.Sprintf("%016x", math.Float64bits(f))
}

func parseI(s string) (bool, string) {
	i, err := strconv.ParseInt(s, 10, 64)
	return err == nil, strconv.FormatInt(i, 10)
}
func parseF(s string) (bool, string) {
	f, err := strconv.ParseFloat(s, 64)
	return err == nil, fbits(f)
}
func parseB(s string) (bool, string) {
	b, err := strconv.ParseBool(s)
	return err == nil, strconv.FormatBool(b)
}
func parseS(s string) (bool, string) { return true, s }

var ctypes = []*ctype{
	{name: "int", parse: parseI, decl: func(cmd *cli.Cmd, o bool, n, e string) func() string {
		var p *int
		if o {
			p = cmd.Int(cli.IntOpt{Name: n, EnvVar: e, Value: -77})
		} else {
			p = cmd.Int(cli.IntArg{Name: n, EnvVar: e, Value: -77})
		}
		return func() string { return strconv.FormatInt(int64(*p), 10) }
	}},
	{name: "float64", parse: parseF, decl: func(cmd *cli.Cmd, o bool, n, e string) func() string {
		var p *float64
		if o {
			p = cmd.Float64(cli.Float64Opt{Name: n, EnvVar: e, Value: -77})
		} else {
			p = cmd.Float64(cli.Float64Arg{Name: n, EnvVar: e, Value: -77})
		}
		return func() string { return fbits(*p) }
	}},
	{name: "bool", parse: parseB, decl: func(cmd *cli.Cmd, o bool, n, e string) func() string {
		var p *bool
		if o {
			p = cmd.Bool(cli.BoolOpt{Name: n, EnvVar: e})
		} else {
			p = cmd.Bool(cli.BoolArg{Name: n, EnvVar: e})
		}
		return func() string { return strconv.FormatBool(*p) }
	}},
	{name: "string", isStr: true, parse: parseS, decl: func(cmd *cli.Cmd, o bool, n, e string) func() string {
		var p *string
		if o {
			p = cmd.String(cli.StringOpt{Name: n, EnvVar: e, Value: "dflt"})
		} else {
			p = cmd.String(cli.StringArg{Name: n, EnvVar: e, Value: "dflt"})
		}
		return func() string { return *p }
	}},
	{name: "ints", multi: true, parse: parseI, decl: func(cmd *cli.Cmd, o bool, n, e string) func() string {
		var p *[]int
		if o {
			p = cmd.Ints(cli.IntsOpt{Name: n, EnvVar: e})
		} else {
			p = cmd.Ints(cli.IntsArg{Name: n, EnvVar: e})
		}
		return func() string {
			var s []string
			for _, x := range *p {
				s = append(s, strconv.FormatInt(int64(x), 10))
			}
			return strings.Join(s, "\x00")
		}
	}},
	{name: "floats64", multi: true, parse: parseF, decl: func(cmd *cli.Cmd, o bool, n, e string) func() string {
		var p *[]float64
		if o {
			p = cmd.Floats64(cli.Floats64Opt{Name: n, EnvVar: e})
		} else {
			p = cmd.Floats64(cli.Floats64Arg{Name: n, EnvVar: e})
		}
		return func() string {
			var s []string
			for _, x := range *p {
				s = append(s, fbits(x))
			}
			return strings.Join(s, "\x00")
		}
	}},
	{name: "strings", multi: true, isStr: true, parse: parseS, decl: func(cmd *cli.Cmd, o bool, n, e string) func() string {
		var p *[]string
		if o {
			p = cmd.Strings(cli.StringsOpt{Name: n, EnvVar: e})
		} else {
			p = cmd.Strings(cli.StringsArg{Name: n, EnvVar: e})
		}
		return func() string { return strings.Join(*p, "\x00") }
	}},
}

var convDeliveries = []string{"-x=tok", "-xtok", "-x tok", "--xx=tok", "--xx tok", "arg tok", "arg -- tok", "env", "env-list-elem",
	"-x=tok -x=good", "-x=good -x=tok", "arg -- tok good", "arg -- good tok"}

// deliver returns the argv / env for a delivery, or ok=false when the reading rules do not allow it.
func deliver(t *ctype, how, tok string) (asOpt bool, argv []string, env string, ok bool) {
	dash := strings.HasPrefix(tok, "-")
	switch how {
	case "-x=tok":
		return true, []string{"-x=" + tok}, "", tok != ""
	case "-xtok":
		return true, []string{"-x" + tok}, "", tok != "" && tok[0] != '=' && t.name != "bool"
	case "-x tok":
		return true, []string{"-x", tok}, "", !dash && t.name != "bool"
	case "--xx=tok":
		return true, []string{"--xx=" + tok}, "", tok != ""
	case "--xx tok":
		return true, []string{"--xx", tok}, "", !dash && t.name != "bool"
	case "arg tok":
		return false, []string{tok}, "", !dash || tok == "-"
	case "arg -- tok":
		return false, []string{"--", tok}, "", true
	case "-x=tok -x=good":
		return true, []string{"-x=" + tok, "-x=" + goodOf(t)}, "", tok != ""
	case "-x=good -x=tok":
		return true, []string{"--xx=" + goodOf(t), "-x=" + tok}, "", tok != ""
	case "arg -- tok good":
		return false, []string{"--", tok, goodOf(t)}, "", true
	case "arg -- good tok":
		return false, []string{"--", goodOf(t), tok}, "", true
	case "env":
		return true, nil, tok, tok != "" && !strings.Contains(tok, "\x00")
	case "env-list-elem":
		return true, nil, "1, " + tok + " ,0", t.multi && !strings.Contains(tok, "\x00")
	}
	panic(how)
}

// a value every type accepts ("1" parses as int, float and bool)
func goodOf(t *ctype) string { return "1" }

func runConv(c *Ctx) {
	maxLen := 3
	if c.Thorough() {
		maxLen = 4
	}
	idx := 0
	do := func(tok string) {
		idx++
		if !c.Mine(idx) {
			return
		}
		if !c.Begin("conv", tok) {
			return
		}
		c.Count("tokens", 1)
		for _, t := range ctypes {
			for _, how := range convDeliveries {
				convCase(c, t, how, tok)
			}
		}
	}
	do("")
	for n := 1; n <= maxLen; n++ {
		strSeqs(convAlpha, n, func(p []string) { do(strings.Join(p, "")) })
	}
	for _, e := range convEdges {
		do(e)
	}
	c.Note("tokens", fmt.Sprintf("all strings of length <= %d over %q, plus %d listed edge cases (32/64-bit limits and neighbours, 400-digit numbers, exponents, hex floats, underscores, Inf/NaN spellings, unicode digits, padded and cased booleans, NUL bytes, dash-prefixed tokens)", maxLen, convAlpha, len(convEdges)))
	c.Note("deliveries", strings.Join(convDeliveries, " | ")+" wherever the reading rules allow it; types int, float64, bool, string, ints, floats64, strings")
}

func replayConv(c *Ctx, cs Case) {
	for _, t := range ctypes {
		if t.name == cStr(cs, "type") {
			convCase(c, t, cStr(cs, "how"), cStr(cs, "tok"))
		}
	}
}

func convCase(c *Ctx, t *ctype, how, tok string) {
	asOpt, argv, env, ok := deliver(t, how, tok)
	if !ok {
		return
	}
	if env != "" {
		os.Setenv("VQ_C", env)
	}
	app := cli.App("app", "")
	app.ErrorHandling = flag.ContinueOnError
	var read func() string
	envName := ""
	if env != "" {
		envName = "VQ_C"
	}
	repeated := strings.Contains(how, "good")
	if asOpt {
		read = t.decl(app.Cmd, true, "x xx", envName)
		app.Spec = "[-x]"
		if repeated {
			app.Spec = "[-x...]"
		}
	} else {
		read = t.decl(app.Cmd, false, "X", "")
		app.Spec = "X"
		if repeated {
			app.Spec = "X..."
		}
	}
	os.Unsetenv("VQ_C")
	before := read()
	ran, got := 0, ""
	app.Action = func() { ran++; got = read() }
	sharedBuf.Reset()
	o := runDirect(&sharedBuf, func() error { return app.Run(append([]string{"app"}, argv...)) })
	c.Count("evaluations", 1)
	key := fmt.Sprintf("type=%s delivery=%q token=%q", t.name, how, tok)
	cs := func() Case { return Case{"type": t.name, "how": how, "tok": tok, "tok_hex": hx(tok)} }
	if o.Panicked || len(o.Exits) > 0 || ran > 1 {
		c.Violation("C13", key, cs(), "Run returns", fmt.Sprintf("panic=%v exits=%v ran=%d", safeSprint(o.PanicVal), o.Exits, ran))
		return
	}
	// expectation from strconv
	var want string
	var parses bool
	repeatedHow := strings.Contains(how, "good")
	_ = repeatedHow
	switch {
	case how == "env-list-elem" || (how == "env" && t.multi):
		parses = true
		var parts []string
		for _, e := range strings.Split(env, ",") {
			okE, v := t.parse(strings.TrimSpace(e))
			if !okE {
				parses = false
			}
			parts = append(parts, v)
		}
		want = strings.Join(parts, "\x00")
	case repeated:
		// two occurrences: every one of them must parse; a single-valued type holds the last, a multi-valued one both
		okT, vT := t.parse(tok)
		_, vG := t.parse(goodOf(t))
		parses = okT
		first, second := vT, vG
		if strings.Contains(how, "good tok") || strings.Contains(how, "good -x") {
			first, second = vG, vT
		}
		want = second
		if t.multi {
			want = first + "\x00" + second
		}
	default:
		parses, want = t.parse(tok)
	}
	if !parses || t.isStr {
		c.Count("nontrivial", 1)
	}
	if env != "" {
		// environment delivery: never an error; an unparsable value is ignored
		if !(o.Returned && o.Err == nil && ran == 1) {
			c.Violation("C13", key, cs(), "environment values never make the invocation fail", fmt.Sprintf("err=%v ran=%d", o.Err, ran))
			return
		}
		if !parses {
			want = before // the variable is ignored: declared default
			if t.multi {
				// known finding D5 concerns non-empty defaults only; defaults here are empty
				want = ""
			}
		}
		if got != want {
			c.Violation("C13", key, cs(), "value "+showVal(want)+map[bool]string{true: " (strconv accepts the token)", false: " (strconv rejects the token: variable ignored)"}[parses], showVal(got))
		}
		return
	}
	if parses {
		if !(o.Returned && o.Err == nil && ran == 1) {
			c.Violation("C13", key, cs(), "accepted (strconv accepts the token), value "+showVal(want), fmt.Sprintf("err=%v ran=%d", o.Err, ran))
		} else if got != want {
			c.Violation("C13", key, cs(), "value "+showVal(want), showVal(got))
		} else if c.WantSample("accepted-"+t.name) && len(tok) >= 2 && !t.isStr {
			c.Sample("accepted-"+t.name, Case{"type": t.name, "delivery": how, "token": tok, "value": showVal(got)})
		}
		return
	}
	if !(o.Returned && o.Err != nil && ran == 0) {
		c.Violation("C13", key, cs(), "usage error (strconv rejects the token), Action not run", fmt.Sprintf("err=%v ran=%d value=%s", o.Err, ran, showVal(got)))
	} else if c.WantSample("rejected-"+t.name) && len(tok) >= 2 {
		c.Sample("rejected-"+t.name, Case{"type": t.name, "delivery": how, "token": tok, "error": o.Err.Error()})
	}
}

func showVal(s string) string { return fmt.Sprintf("%q", strings.ReplaceAll(s, "\x00", ",")) }
