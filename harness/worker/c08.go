//go:build verif

package main

import (
	"flag"
	"fmt"
	"strings"

	cli "github.com/jawher/mow.cli"
	"github.com/jawher/mow.cli/internal/zverif/ref"
)

// C08: a spec string compiles iff it is well-formed; error positions; token partition.

func init() {
	register(&CheckDef{Name: "syntax", Props: []string{"C08"}, Run: runSyntax, Replay: replaySyntax})
}

type declSet struct {
	name string
	opts []string // names as given to the API, e.g. "a aa"
	args []string
	o    map[string]bool // with dashes
	a    map[string]bool
}

func mkDeclSet(name string, opts, args []string) *declSet {
	d := &declSet{name: name, opts: opts, args: args, o: map[string]bool{}, a: map[string]bool{}}
	for _, o := range opts {
		for _, n := range strings.Fields(o) {
			if len(n) == 1 {
				d.o["-"+n] = true
			} else {
				d.o["--"+n] = true
			}
		}
	}
	for _, a := range args {
		d.a[a] = true
	}
	return d
}

// a third declaration set with `-` and `_` inside names, run over its own lexeme space (names that differ from the
// declared ones only in the separator are undeclared)
var c08NamesDecl = mkDeclSet("d,dry-run,k,keep_all;SRC_DIR", []string{"d dry-run", "k keep_all"}, []string{"SRC_DIR"})
var c08NameLexemes = []string{"[", "]", "|", "...", "-d", "--dry-run", "--dry_run", "--keep_all", "--keep-all", "--dry", "SRC_DIR", "SRC", "SRC-DIR", "-dk", "=<a-b_c>", "OPTIONS"}

// blanks and their look-alikes: only the space and the tab separate tokens
var c08Blanks = []string{" ", "\t", "X", "-a", "\n", "\r", "\v", "\f", "\u00a0", "\u2003", "\u0085"}

// annotation fragments after a non-empty prefix: error positions are absolute, not relative to the annotation
var c08AnnotPrefixes = []string{"X -a", "X [--aa", "[X] -z", "X  --zz"}
var c08AnnotBytes = []string{"=", "<", ">", "a", " "}

var c08Decls = []*declSet{
	mkDeclSet("a,aa,b;X", []string{"a aa", "b"}, []string{"X"}),
	mkDeclSet("z,zz;Q", []string{"z zz"}, []string{"Q"}),
}

func runSyntax(c *Ctx) {
	i := 0
	do := func(spec string) {
		i++
		if !c.Mine(i) || spec == "" {
			return
		}
		if !c.Begin("syntax", spec) {
			return
		}
		for _, ds := range c08Decls {
			syntaxCase(c, spec, ds)
		}
	}
	maxLen := 5
	for n := 1; n <= maxLen; n++ {
		strSeqs(c03Bytes, n, func(p []string) { do(strings.Join(p, "")) })
	}
	c.Note("space (i)", fmt.Sprintf("all non-empty strings of length <= %d over %d class representatives %q", maxLen, len(c03Bytes), c03Bytes))
	if c.Thorough() {
		strSeqs(c03BytesSm, 6, func(p []string) { do(strings.Join(p, "")) })
		strSeqs(c03BytesSm, 7, func(p []string) { do(strings.Join(p, "")) })
		c.Note("space (i) deep", fmt.Sprintf("all strings of length 6 and 7 over %q", c03BytesSm))
	}
	for _, pre := range c03Prefixes {
		for n := 1; n <= 3; n++ {
			strSeqs(c03HighBytes, n, func(p []string) { do(pre + strings.Join(p, "")) })
		}
	}
	c.Note("space (iv)", fmt.Sprintf("prefixes %q followed by every string of length <= 3 over the bytes %q", c03Prefixes, c03HighBytes))
	maxLex := 5
	if c.Thorough() {
		maxLex = 6
	}
	for n := 1; n <= maxLex; n++ {
		strSeqs(c03Lexemes, n, func(p []string) {
			for _, sep := range []string{"", " ", "\t"} {
				if n == 1 && sep != "" {
					continue
				}
				do(strings.Join(p, sep))
			}
		})
	}
	c.Note("space (ii)", fmt.Sprintf("all sequences of <= %d lexemes over %q, joined by nothing, a space, a tab", maxLex, c03Lexemes))
	c.Note("declarations", "each string against two declaration sets: {a/aa, b; X} and {z/zz; Q}")
	for n := 1; n <= 4; n++ {
		strSeqs(c08Blanks, n, func(p []string) { do(strings.Join(p, "")) })
	}
	c.Note("space (vi)", fmt.Sprintf("all strings of <= 4 symbols over %q", c08Blanks))
	for _, pre := range c08AnnotPrefixes {
		for n := 1; n <= 4; n++ {
			strSeqs(c08AnnotBytes, n, func(p []string) { do(pre + strings.Join(p, "")) })
		}
	}
	c.Note("space (viii)", fmt.Sprintf("prefixes %q followed by every string of <= 4 symbols over %q (annotations away from offset 0)", c08AnnotPrefixes, c08AnnotBytes))
	for n := 1; n <= 3; n++ {
		strSeqs(c08NameLexemes, n, func(p []string) {
			for _, sep := range []string{"", " "} {
				if n == 1 && sep != "" {
					continue
				}
				spec := strings.Join(p, sep)
				i++
				if !c.Mine(i) || !c.Begin("syntax-names", spec) {
					continue
				}
				syntaxCase(c, spec, c08NamesDecl)
			}
		})
	}
	c.Note("space (vii)", fmt.Sprintf("declaration set {d/dry-run, k/keep_all; SRC_DIR}: all sequences of <= 3 lexemes over %q, joined by nothing or a space", c08NameLexemes))
}

func replaySyntax(c *Ctx, cs Case) {
	for _, ds := range append([]*declSet{c08NamesDecl}, c08Decls...) {
		if ds.name == cStr(cs, "decl") {
			syntaxCase(c, cStr(cs, "spec"), ds)
		}
	}
}

func syntaxCase(c *Ctx, spec string, ds *declSet) {
	if strings.Contains(spec, "--\t") {
		// `--` directly followed by a tab: the documentation does not say whether this is the end-of-options
		// token (the code says no, and rejects it); not claimed either way
		c.Count("unclaimed_marker_before_tab", 1)
		return
	}
	hooks := 0
	app := cli.App("app", "")
	app.ErrorHandling = flag.ContinueOnError
	for _, o := range ds.opts {
		app.Var(cli.VarOpt{Name: o, Value: &logVal{isFlag: true}})
	}
	for _, a := range ds.args {
		app.Var(cli.VarArg{Name: a, Value: &logVal{}})
	}
	app.Spec = spec
	app.Before = func() { hooks++ }
	app.After = func() { hooks++ }
	app.Action = func() { hooks++ }
	sharedBuf.Reset()
	o := runDirect(&sharedBuf, func() error { return app.Run([]string{"app"}) })
	v := ref.CheckSpec(spec, ds.o, ds.a)
	c.Count("evaluations", 1)
	key := fmt.Sprintf("spec=%q decl={%s}", spec, ds.name)
	cs := func() Case { return Case{"spec": spec, "spec_hex": hx(spec), "decl": ds.name} }
	var pe *specErr
	if o.Panicked {
		pe = asSpecErr(o.PanicVal)
		if pe == nil {
			c.Violation("C08", key, cs(), "Run returns or panics with a positioned spec error", "panic: "+safeSprint(o.PanicVal))
			return
		}
	}
	compiled := pe == nil
	if len(v.Tokens) >= 2 || (!v.OK && v.Lo > 0) {
		c.Count("nontrivial", 1)
	}
	if v.OK {
		c.Count("wellformed", 1)
	}
	if compiled != v.OK {
		exp := "compiles (well-formed)"
		obs := "rejected: " + fmt.Sprintf("pos %d: %s", posOf(pe), msgOf(pe))
		if !v.OK {
			exp = fmt.Sprintf("rejected (%s at [%d,%d])", v.Why, v.Lo, v.Hi)
			obs = "compiled"
		}
		c.Violation("C08", key, cs(), exp, obs)
		return
	}
	if !compiled {
		if hooks != 0 {
			c.Violation("C08", key, cs(), "no Action or interceptor runs when the spec is rejected", fmt.Sprintf("%d hook calls", hooks))
		}
		if pe.Pos < v.Lo || pe.Pos > v.Hi || pe.Pos > len(spec) {
			c.Violation("C08", key+" (position)", cs(), fmt.Sprintf("error position within the offending lexeme [%d,%d] (%s)", v.Lo, v.Hi, v.Why), fmt.Sprintf("pos %d: %s", pe.Pos, pe.Msg))
		}
		// the rejection does not depend on the command line: a help request, or a declared version flag in first
		// position, on a command whose spec is malformed still panics with the spec error and prints nothing of the kind
		for vi, av := range [][]string{{"app", "-v"}, {"app", "--help"}} {
			if vi == 0 && (strings.Contains(spec, "-v") || strings.Contains(spec, "OPTIONS")) {
				continue // the version flag would itself be a declared option the spec may name
			}
			hooks2 := 0
			app2 := cli.App("app", "")
			app2.ErrorHandling = flag.ContinueOnError
			for _, o := range ds.opts {
				app2.Var(cli.VarOpt{Name: o, Value: &logVal{isFlag: true}})
			}
			for _, a := range ds.args {
				app2.Var(cli.VarArg{Name: a, Value: &logVal{}})
			}
			if vi == 0 {
				app2.Version("v version", "9.9.9-verif")
			}
			app2.Spec = spec
			app2.Before = func() { hooks2++ }
			app2.Action = func() { hooks2++ }
			sharedBuf.Reset()
			o2 := runDirect(&sharedBuf, func() error { return app2.Run(av) })
			c.Count("rejected_specs_with_help_or_version_request", 1)
			pe2 := (*specErr)(nil)
			if o2.Panicked {
				pe2 = asSpecErr(o2.PanicVal)
			}
			if pe2 == nil || pe2.Pos != pe.Pos || hooks2 != 0 {
				c.Violation("C08", key+fmt.Sprintf(" argv=%q", av[1:]), Case{"spec": spec, "spec_hex": hx(spec), "decl": ds.name}, fmt.Sprintf("Run panics with the spec error at position %d whatever the command line", pe.Pos), fmt.Sprintf("panicked=%v value=%s returned=%v err=%v hooks=%d output=%q", o2.Panicked, safeSprint(o2.PanicVal), o2.Returned, o2.Err, hooks2, clip(sharedBuf.String(), 120)))
			}
		}
		if c.WantSample("rejected:"+strings.SplitN(v.Why, ":", 2)[0]) && len(spec) >= 3 {
			c.Sample("rejected:"+strings.SplitN(v.Why, ":", 2)[0], Case{"spec": spec, "decl": ds.name, "reference": fmt.Sprintf("%s at [%d,%d]", v.Why, v.Lo, v.Hi), "reported_pos": pe.Pos, "msg": pe.Msg})
		}
		return
	}
	// accepted: a second Run on the same instance compiles the same spec again, to the same effect
	sharedBuf.Reset()
	if o2 := runDirect(&sharedBuf, func() error { return app.Run([]string{"app"}) }); o2.Panicked {
		c.Violation("C08", key+" (second Run on the same instance)", cs(), "the spec compiles again", "panic: "+safeSprint(o2.PanicVal))
		return
	}
	c.Count("accepted_specs_run_twice", 1)
	// accepted: the library's own tokens must partition the non-blank bytes (needs the internal lexer API)
	tokenPartition(c, spec, ds, key, cs, len(v.Tokens))
}

func posOf(pe *specErr) int {
	if pe == nil {
		return -1
	}
	return pe.Pos
}
func msgOf(pe *specErr) string {
	if pe == nil {
		return ""
	}
	return pe.Msg
}

func clip(s string, n int) string {
	if len(s) > n {
		return s[:n] + "..."
	}
	return s
}
