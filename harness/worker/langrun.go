//go:build verif

package main

import (
	"bytes"
	"flag"
	"fmt"
	"os"
	"strings"

	cli "github.com/jawher/mow.cli"
	"github.com/jawher/mow.cli/internal/zverif/ref"
)

// logVal is the custom flag.Value used to observe every Set / Clear call.
type logVal struct {
	sets   []string
	clears int
	isFlag bool
}

func (l *logVal) Set(s string) error { l.sets = append(l.sets, s); return nil }
func (l *logVal) String() string     { return strings.Join(l.sets, ",") }
func (l *logVal) IsBoolFlag() bool   { return l.isFlag }
func (l *logVal) Clear()             { l.sets = nil; l.clears++ }

// LangObs is what one Run of a single-command application shows from outside.
type LangObs struct {
	Accepted   bool
	ActionRuns int
	Err        string
	Panic      string
	SpecError  bool // Run panicked with a spec (parse) error
	SpecPos    int
	SpecMsg    string // result of Error(), or "Error() panicked: .."
	Exits      []int
	Lists      [][]string // per container, the values it holds inside the Action (or after Run when rejected)
	SetByUser  []bool
	Stderr     string
}

type langOpts struct {
	env           map[string]string // option key -> value of its environment variable (variable VQ_<KEY>)
	builtin       bool              // use BoolOpt/StringsOpt/StringsArg instead of the logging custom type
	sharedDefault bool              // built-in types only: every multi-valued declaration gets the same caller-owned default slice
	policy        flag.ErrorHandling
	keepErr       bool
	first         []string // when non-nil: this command line is run first, on the same instance
	hasFirst      bool
	fullArgv      []string // when non-nil: exactly this slice (program name included) is handed to Run, not a copy
}

func optName(o ref.OptDecl) string {
	var n []string
	for _, x := range o.Names {
		n = append(n, strings.TrimLeft(x, "-"))
	}
	return strings.Join(n, " ")
}

var sharedBuf bytes.Buffer

// the content of the default slice handed to every multi-valued declaration in sharedDefault mode; no token alphabet can spell it
var sharedDefaultContent = []string{"\x00dflt0", "\x00dflt1", "\x00dflt2"}

func sameStrings(a, b []string) bool {
	if len(a) != len(b) {
		return false
	}
	for i := range a {
		if a[i] != b[i] {
			return false
		}
	}
	return true
}

// runLang builds a fresh application from the declarations and runs it once.
func runLang(d *ref.Decl, spec string, argv []string, lo langOpts) LangObs {
	var obs LangObs
	nc := d.NC()
	for k, v := range lo.env {
		os.Setenv("VQ_"+strings.ToUpper(k), v)
	}
	app := cli.App("app", "")
	app.ErrorHandling = lo.policy
	if lo.policy == 0 {
		app.ErrorHandling = flag.ContinueOnError
	}
	sbu := make([]bool, nc)
	var read func(i int) []string
	// d.Nested: everything is declared on the sub-command `sub` (lazily, inside its initializer, while the
	// environment is still set) and the command line is prefixed with its name
	declare := func(app *cli.Cmd) {
		app.Spec = spec
		if !lo.builtin {
			vals := make([]*logVal, nc)
			for i, o := range d.Opts {
				vals[i] = &logVal{isFlag: o.Flag}
				ev := ""
				if _, ok := lo.env[o.Key]; ok {
					ev = "VQ_" + strings.ToUpper(o.Key)
				}
				app.Var(cli.VarOpt{Name: optName(o), Value: vals[i], EnvVar: ev, SetByUser: &sbu[i]})
			}
			for j, a := range d.Args {
				i := len(d.Opts) + j
				vals[i] = &logVal{}
				app.Var(cli.VarArg{Name: a, Value: vals[i], SetByUser: &sbu[i]})
			}
			read = func(i int) []string { return append([]string(nil), vals[i].sets...) }
		} else {
			bools := make([]*bool, nc)
			strs := make([]*[]string, nc)
			var shared []string
			if lo.sharedDefault {
				shared = append(make([]string, 0, 4), sharedDefaultContent...)
			}
			for i, o := range d.Opts {
				ev := ""
				if _, ok := lo.env[o.Key]; ok {
					ev = "VQ_" + strings.ToUpper(o.Key)
				}
				if o.Flag {
					bools[i] = app.Bool(cli.BoolOpt{Name: optName(o), EnvVar: ev, SetByUser: &sbu[i]})
				} else {
					strs[i] = app.Strings(cli.StringsOpt{Name: optName(o), EnvVar: ev, SetByUser: &sbu[i], Value: shared})
				}
			}
			for j, a := range d.Args {
				i := len(d.Opts) + j
				strs[i] = app.Strings(cli.StringsArg{Name: a, SetByUser: &sbu[i], Value: shared})
			}
			read = func(i int) []string {
				if bools[i] != nil {
					if *bools[i] {
						return []string{"true"}
					}
					return nil
				}
				if lo.sharedDefault && sameStrings(*strs[i], sharedDefaultContent) {
					return nil // still the declared default: nothing came from the command line
				}
				return append([]string(nil), (*strs[i])...)
			}
		}
	}
	var action func()
	if d.Nested {
		app.Command("sub", "", func(sub *cli.Cmd) {
			declare(sub)
			sub.Action = func() { action() }
		})
	} else {
		declare(app.Cmd)
		for k := range lo.env {
			os.Unsetenv("VQ_" + strings.ToUpper(k))
		}
	}
	snapshot := func() {
		if read == nil {
			return // the sub-command was never initialised
		}
		obs.Lists = make([][]string, nc)
		for i := 0; i < nc; i++ {
			obs.Lists[i] = read(i)
		}
		obs.SetByUser = append([]bool(nil), sbu...)
	}
	action = func() {
		obs.ActionRuns++
		snapshot()
	}
	if !d.Nested {
		app.Action = action
	}
	full := append([]string{"app"}, argv...)
	if d.Nested {
		full = append([]string{"app", "sub"}, argv...)
	}
	if lo.fullArgv != nil {
		full = lo.fullArgv
	}
	if lo.hasFirst {
		sharedBuf.Reset()
		runDirect(&sharedBuf, func() error { return app.Run(append([]string{"app"}, lo.first...)) })
		obs = LangObs{}
	}
	sharedBuf.Reset()
	o := runDirect(&sharedBuf, func() error { return app.Run(full) })
	if d.Nested {
		for k := range lo.env {
			os.Unsetenv("VQ_" + strings.ToUpper(k))
		}
	}
	obs.Exits = o.Exits
	if o.Panicked {
		obs.Panic = safeSprint(o.PanicVal)
		if pe := asSpecErr(o.PanicVal); pe != nil {
			obs.SpecError = true
			obs.SpecPos = pe.Pos
			obs.SpecMsg = pe.Text()
			obs.Panic = "spec error at " + fmt.Sprint(pe.Pos) + ": " + pe.Msg
		}
	}
	if o.Err != nil {
		obs.Err = o.Err.Error()
	}
	obs.Accepted = o.Returned && o.Err == nil && obs.ActionRuns == 1
	if obs.ActionRuns == 0 {
		snapshot()
	}
	if lo.keepErr {
		obs.Stderr = sharedBuf.String()
	}
	return obs
}

func (o *LangObs) Summary() string {
	return fmt.Sprintf("accepted=%v action_runs=%d err=%q panic=%q exits=%v", o.Accepted, o.ActionRuns, o.Err, o.Panic, o.Exits)
}

func safeSprint(v interface{}) (s string) {
	defer func() {
		if r := recover(); r != nil {
			s = fmt.Sprintf("<%T: printing it panicked>", v)
		}
	}()
	return fmt.Sprint(v)
}
