//go:build verif

package main

// The custom flag.Value types of C19: one struct type per combination of the optional methods
// IsBoolFlag {absent, false, true} x Clear {absent, present} x IsDefault {absent, present}, plus four
// method-less types of other underlying kinds.

import "errors"

type cvBase struct {
	log []string
}

func (b *cvBase) Set(s string) error {
	b.log = append(b.log, "Set("+s+")")
	if s == "FAIL" {
		return errors.New("custom value refuses FAIL")
	}
	return nil
}
func (b *cvBase) String() string { return "custom" }

type cvAny interface {
	Set(string) error
	String() string
	base() *cvBase
}

func (b *cvBase) base() *cvBase { return b }

type cvNnn struct{ cvBase }

type cvNnd struct{ cvBase }
func (v *cvNnd) IsDefault() bool { return true }

type cvNcn struct{ cvBase }
func (v *cvNcn) Clear() { v.log = append(v.log, "Clear") }

type cvNcd struct{ cvBase }
func (v *cvNcd) Clear() { v.log = append(v.log, "Clear") }
func (v *cvNcd) IsDefault() bool { return true }

type cvFnn struct{ cvBase }
func (v *cvFnn) IsBoolFlag() bool { return false }

type cvFnd struct{ cvBase }
func (v *cvFnd) IsBoolFlag() bool { return false }
func (v *cvFnd) IsDefault() bool { return true }

type cvFcn struct{ cvBase }
func (v *cvFcn) IsBoolFlag() bool { return false }
func (v *cvFcn) Clear() { v.log = append(v.log, "Clear") }

type cvFcd struct{ cvBase }
func (v *cvFcd) IsBoolFlag() bool { return false }
func (v *cvFcd) Clear() { v.log = append(v.log, "Clear") }
func (v *cvFcd) IsDefault() bool { return true }

type cvTnn struct{ cvBase }
func (v *cvTnn) IsBoolFlag() bool { return true }

type cvTnd struct{ cvBase }
func (v *cvTnd) IsBoolFlag() bool { return true }
func (v *cvTnd) IsDefault() bool { return true }

type cvTcn struct{ cvBase }
func (v *cvTcn) IsBoolFlag() bool { return true }
func (v *cvTcn) Clear() { v.log = append(v.log, "Clear") }

type cvTcd struct{ cvBase }
func (v *cvTcd) IsBoolFlag() bool { return true }
func (v *cvTcd) Clear() { v.log = append(v.log, "Clear") }
func (v *cvTcd) IsDefault() bool { return true }

// Types whose UNDERLYING kind is bool / slice / string / int but which implement none of the optional methods: the
// protocol is driven by the optional interfaces alone, never by the shape of the type. Their call log lives in a
// side table keyed by the pointer.
var cvExt = map[interface{}]*cvBase{}

func cvReg(v interface{}) { cvExt[v] = &cvBase{} }

// cvGC empties the side table between cases (never inside one: a case registers two values and reads both)
func cvGC() {
	if len(cvExt) > 1<<18 {
		cvExt = map[interface{}]*cvBase{}
	}
}

type cvKBool bool

func (v *cvKBool) Set(s string) error { return cvExt[v].Set(s) }
func (v *cvKBool) String() string     { return "custom" }
func (v *cvKBool) base() *cvBase      { return cvExt[v] }

type cvKSlice []string

func (v *cvKSlice) Set(s string) error { return cvExt[v].Set(s) }
func (v *cvKSlice) String() string     { return "custom" }
func (v *cvKSlice) base() *cvBase      { return cvExt[v] }

type cvKString string

func (v *cvKString) Set(s string) error { return cvExt[v].Set(s) }
func (v *cvKString) String() string     { return "custom" }
func (v *cvKString) base() *cvBase      { return cvExt[v] }

type cvKInt int

func (v *cvKInt) Set(s string) error { return cvExt[v].Set(s) }
func (v *cvKInt) String() string     { return "custom" }
func (v *cvKInt) base() *cvBase      { return cvExt[v] }

// cvWrap forwards IsBoolFlag() from what it wraps (the usual decorator pattern): the answer belongs to the value, not
// to the Go type. Every case of these two kinds first builds and runs a throwaway application whose value is of the
// same Go type and answers the other way.
type cvWrap struct {
	cvBase
	flagLike bool
}

func (v *cvWrap) IsBoolFlag() bool { return v.flagLike }

type cvKind struct {
	name string
	isBool bool
	hasClear bool
	mk func() cvAny
	primeOpposite bool
}

var cvKinds = []cvKind{
	{"IsBoolFlag=absent Clear=absent IsDefault=absent", false, false, func() cvAny { return &cvNnn{} }, false},
	{"IsBoolFlag=absent Clear=absent IsDefault=present", false, false, func() cvAny { return &cvNnd{} }, false},
	{"IsBoolFlag=absent Clear=present IsDefault=absent", false, true, func() cvAny { return &cvNcn{} }, false},
	{"IsBoolFlag=absent Clear=present IsDefault=present", false, true, func() cvAny { return &cvNcd{} }, false},
	{"IsBoolFlag=false Clear=absent IsDefault=absent", false, false, func() cvAny { return &cvFnn{} }, false},
	{"IsBoolFlag=false Clear=absent IsDefault=present", false, false, func() cvAny { return &cvFnd{} }, false},
	{"IsBoolFlag=false Clear=present IsDefault=absent", false, true, func() cvAny { return &cvFcn{} }, false},
	{"IsBoolFlag=false Clear=present IsDefault=present", false, true, func() cvAny { return &cvFcd{} }, false},
	{"IsBoolFlag=true Clear=absent IsDefault=absent", true, false, func() cvAny { return &cvTnn{} }, false},
	{"IsBoolFlag=true Clear=absent IsDefault=present", true, false, func() cvAny { return &cvTnd{} }, false},
	{"IsBoolFlag=true Clear=present IsDefault=absent", true, true, func() cvAny { return &cvTcn{} }, false},
	{"IsBoolFlag=true Clear=present IsDefault=present", true, true, func() cvAny { return &cvTcd{} }, false},
	{"named bool type, no optional method", false, false, func() cvAny { v := new(cvKBool); cvReg(v); return v }, false},
	{"named []string type, no optional method", false, false, func() cvAny { v := new(cvKSlice); cvReg(v); return v }, false},
	{"named string type, no optional method", false, false, func() cvAny { v := new(cvKString); cvReg(v); return v }, false},
	{"named int type, no optional method", false, false, func() cvAny { v := new(cvKInt); cvReg(v); return v }, false},
	{"decorator whose IsBoolFlag() answers true (after a value of the same Go type answering false was used)", true, false, func() cvAny { return &cvWrap{flagLike: true} }, true},
	{"decorator whose IsBoolFlag() answers false (after a value of the same Go type answering true was used)", false, false, func() cvAny { return &cvWrap{flagLike: false} }, true},
}
