//go:build verif

package main

import (
	"flag"
	"fmt"
	"os"
	"strings"

	cli "github.com/jawher/mow.cli"
	"github.com/jawher/mow.cli/internal/zverif/ref"
)

// C16: a command without a spec behaves exactly like the same command with the explicit
// spec `[OPTIONS] ARG1 ARG2 ...`, and its usage line shows that spec. Differential.

func init() {
	register(&CheckDef{Name: "implicit", Props: []string{"C16"}, Run: runImplicit, Replay: replayImplicit})
}

var c16Opts = []string{"f", "o", "m", "e"} // flag, valued, multi-valued, valued backed by $VQ_E

type c16Obs struct {
	accepted bool
	err      string
	vals     string
	sbu      string
	stderr   string
	bad      string
}

// c16Nested: declare everything on a sub-command `sub` (initialised lazily) instead of on the application
var c16Nested bool

func c16Run(opts []string, args []string, version bool, spec string, argv []string, twice bool) c16Obs {
	if c16Nested {
		return c16RunNested(opts, args, spec, argv)
	}
	os.Setenv("VQ_E", "ev")
	app := cli.App("app", "")
	os.Unsetenv("VQ_E")
	app.ErrorHandling = flag.ContinueOnError
	app.Spec = spec
	var readers []func() string
	var sbus []*bool
	if version {
		app.Version("v version", "1.0")
	}
	os.Setenv("VQ_E", "ev")
	for _, o := range opts {
		o := o
		s := new(bool)
		sbus = append(sbus, s)
		switch o {
		case "f":
			p := app.Bool(cli.BoolOpt{Name: "f ff", SetByUser: s})
			readers = append(readers, func() string { return fmt.Sprintf("f=%v", *p) })
		case "o":
			p := app.String(cli.StringOpt{Name: "o oo", SetByUser: s})
			readers = append(readers, func() string { return fmt.Sprintf("o=%q", *p) })
		case "m":
			p := app.Strings(cli.StringsOpt{Name: "m mm", SetByUser: s})
			readers = append(readers, func() string { return fmt.Sprintf("m=%q", *p) })
		case "e":
			p := app.String(cli.StringOpt{Name: "e ee", EnvVar: "VQ_E", SetByUser: s})
			readers = append(readers, func() string { return fmt.Sprintf("e=%q", *p) })
		}
	}
	os.Unsetenv("VQ_E")
	for i, a := range args {
		name := c16ArgName(i)
		s := new(bool)
		sbus = append(sbus, s)
		if a == "single" {
			p := app.String(cli.StringArg{Name: name, SetByUser: s})
			readers = append(readers, func() string { return fmt.Sprintf("%s=%q", name, *p) })
		} else if a == "envsingle" {
			os.Setenv("VQ_E2", "fromenv")
			p := app.String(cli.StringArg{Name: name, EnvVar: "VQ_E2", SetByUser: s})
			os.Unsetenv("VQ_E2")
			readers = append(readers, func() string { return fmt.Sprintf("%s=%q", name, *p) })
		} else {
			p := app.Strings(cli.StringsArg{Name: name, SetByUser: s})
			readers = append(readers, func() string { return fmt.Sprintf("%s=%q", name, *p) })
		}
	}
	var obs c16Obs
	prefix := ""
	ran := 0
	app.Action = func() {
		ran++
		var v, b []string
		for _, r := range readers {
			v = append(v, r())
		}
		for _, s := range sbus {
			b = append(b, fmt.Sprint(*s))
		}
		obs.vals, obs.sbu = strings.Join(v, " "), strings.Join(b, ",")
	}
	sharedBuf.Reset()
	o := runDirect(&sharedBuf, func() error { return app.Run(append([]string{"app"}, argv...)) })
	if twice && !o.Panicked && len(o.Exits) == 0 {
		// the same command line once more on the same application instance
		first := fmt.Sprintf("first run: accepted=%v vals=%s | ", o.Returned && o.Err == nil && ran == 1, obs.vals)
		ran = 0
		sharedBuf.Reset()
		o = runDirect(&sharedBuf, func() error { return app.Run(append([]string{"app"}, argv...)) })
		prefix = first
	}
	obs.stderr = sharedBuf.String()
	if o.Panicked || len(o.Exits) > 0 || ran > 1 {
		obs.bad = fmt.Sprintf("panic=%v exits=%v ran=%d", safeSprint(o.PanicVal), o.Exits, ran)
	}
	if o.Err != nil {
		obs.err = o.Err.Error()
	}
	obs.accepted = o.Returned && o.Err == nil && ran == 1
	obs.vals = prefix + obs.vals
	return obs
}

// argument names chosen so that every later name is a suffix of the earlier ones
func c16ArgName(i int) string { return []string{"SRC_DIR", "DIR", "IR"}[i] }

func c16Alphabet(opts []string, version bool) []string {
	a := []string{"x", "--", "-z"}
	for _, o := range opts {
		switch o {
		case "f":
			a = append(a, "-f")
		case "o":
			a = append(a, "-o", "--oo=v")
		case "m":
			a = append(a, "-mv")
		case "e":
			a = append(a, "-e=w")
		}
	}
	if version {
		a = append(a, "-v")
	}
	return a
}

func c16Explicit(opts []string, args []string, version bool) string {
	var p []string
	if len(opts) > 0 || version {
		p = append(p, "[OPTIONS]")
	}
	for i := range args {
		p = append(p, c16ArgName(i))
	}
	return strings.Join(p, " ")
}

func runImplicit(c *Ctx) {
	alen := 4
	if c.Thorough() {
		alen = 5
	}
	idx := 0
	var optSets [][]string
	for mask := 0; mask < 16; mask++ {
		var s []string
		for i, o := range c16Opts {
			if mask&(1<<uint(i)) != 0 {
				s = append(s, o)
			}
		}
		if len(s) <= 3 {
			optSets = append(optSets, s)
		}
	}
	var argSets [][]string
	for n := 0; n <= 3; n++ {
		for mask := 0; mask < 1<<uint(n); mask++ {
			var s []string
			for i := 0; i < n; i++ {
				s = append(s, map[bool]string{false: "single", true: "multi"}[mask&(1<<uint(i)) != 0])
			}
			argSets = append(argSets, s)
			// the same with one argument backed by a set environment variable
			for i := 0; i < n; i++ {
				if s[i] == "single" {
					e := append([]string{}, s...)
					e[i] = "envsingle"
					argSets = append(argSets, e)
				}
			}
		}
	}
	ndecl := 0
	for _, opts := range optSets {
		for _, args := range argSets {
			for _, version := range []bool{false, true} {
				ndecl++
				idx++
				if !c.Mine(idx) {
					continue
				}
				if !c.Begin("implicit", fmt.Sprint(opts), fmt.Sprint(args), fmt.Sprint(version)) {
					continue
				}
				for _, argv := range ref.Argvs(c16Alphabet(opts, version), alen) {
					c.Beat()
					implicitCase(c, opts, args, version, argv)
					if !version && len(argv) <= 3 {
						c16Nested = true
						implicitCase(c, opts, args, version, argv)
						c16Nested = false
					}
				}
			}
		}
	}
	c.Note("declarations", fmt.Sprintf("%d declaration sets: every subset of size <= 3 of {flag f, valued o, multi-valued m, valued e backed by a set environment variable} x every sequence of 0-3 arguments each single- or multi-valued, optionally one of them backed by a set environment variable, x {no version flag, Version(\"v version\")}; argvs: all of length <= %d over the set's own alphabet (x, --, -z and the spellings of its options); command lines of even length are run twice on the same instance", ndecl, alen))
}

func replayImplicit(c *Ctx, cs Case) {
	v, _ := cs["version"].(bool)
	c16Nested, _ = cs["nested"].(bool)
	implicitCase(c, cStrs(cs, "opts"), cStrs(cs, "args"), v, cStrs(cs, "argv"))
	c16Nested = false
}

func implicitCase(c *Ctx, opts, args []string, version bool, argv []string) {
	explicit := c16Explicit(opts, args, version)
	twice := len(argv)%2 == 0 // every other command line is run twice on the same instance
	a := c16Run(opts, args, version, "", argv, twice)
	c.Count("evaluations", 1)
	if len(opts)+len(args) >= 2 {
		c.Count("nontrivial", 1)
	}
	key := fmt.Sprintf("options=%v args=%v version=%v argv=%q", opts, args, version, argv)
	if c16Nested {
		key += " on-subcommand"
	}
	nested := c16Nested
	cs := func() Case {
		return Case{"opts": opts, "args": args, "version": version, "argv": argv, "nested": nested}
	}
	if explicit == "" {
		// nothing declared: the explicit spec is empty too (an empty Spec *is* the implicit case); judge directly
		if a.accepted != (len(argv) == 0 || (len(argv) == 1 && argv[0] == "--")) || a.bad != "" {
			c.Violation("C16", key, cs(), "a command declaring nothing accepts exactly the empty command line", fmt.Sprintf("accepted=%v err=%q %s", a.accepted, a.err, a.bad))
		}
		return
	}
	b := c16Run(opts, args, version, explicit, argv, twice)
	if a.bad != "" || b.bad != "" {
		c.Violation("C16", key, cs(), "Run returns", a.bad+" / "+b.bad)
		return
	}
	if a.accepted != b.accepted || a.vals != b.vals || a.sbu != b.sbu || a.err != b.err {
		c.Violation("C16", key, cs(), fmt.Sprintf("same as with the explicit spec %q: accepted=%v %s setbyuser=%s err=%q", explicit, b.accepted, b.vals, b.sbu, b.err),
			fmt.Sprintf("accepted=%v %s setbyuser=%s err=%q", a.accepted, a.vals, a.sbu, a.err))
		return
	}
	if !a.accepted && !(version && len(argv) > 0 && (argv[0] == "-v")) {
		want := "Usage: app " + explicit
		if c16Nested {
			want = "Usage: app sub " + explicit
		}
		if !hasLine(a.stderr, want) {
			c.Violation("C16", key+" (usage line)", cs(), "usage line `"+want+"`", fmt.Sprintf("%q", firstLines(a.stderr, 4)))
		}
	}
	if a.accepted && len(argv) >= 2 && c.WantSample("implicit") {
		c.Sample("implicit", Case{"options": opts, "args": args, "version": version, "explicit_spec": explicit, "argv": argv, "both": a.vals})
	}
}

func c16RunNested(opts []string, args []string, spec string, argv []string) c16Obs {
	var obs c16Obs
	ran := 0
	app := cli.App("app", "")
	app.ErrorHandling = flag.ContinueOnError
	app.Command("sub", "", func(cmd *cli.Cmd) {
		cmd.Spec = spec
		var readers []func() string
		var sbus []*bool
		os.Setenv("VQ_E", "ev")
		for _, o := range opts {
			s := new(bool)
			sbus = append(sbus, s)
			switch o {
			case "f":
				p := cmd.Bool(cli.BoolOpt{Name: "f ff", SetByUser: s})
				readers = append(readers, func() string { return fmt.Sprintf("f=%v", *p) })
			case "o":
				p := cmd.String(cli.StringOpt{Name: "o oo", SetByUser: s})
				readers = append(readers, func() string { return fmt.Sprintf("o=%q", *p) })
			case "m":
				p := cmd.Strings(cli.StringsOpt{Name: "m mm", SetByUser: s})
				readers = append(readers, func() string { return fmt.Sprintf("m=%q", *p) })
			case "e":
				p := cmd.String(cli.StringOpt{Name: "e ee", EnvVar: "VQ_E", SetByUser: s})
				readers = append(readers, func() string { return fmt.Sprintf("e=%q", *p) })
			}
		}
		os.Unsetenv("VQ_E")
		for i, a := range args {
			name := c16ArgName(i)
			s := new(bool)
			sbus = append(sbus, s)
			switch a {
			case "single":
				p := cmd.String(cli.StringArg{Name: name, SetByUser: s})
				readers = append(readers, func() string { return fmt.Sprintf("%s=%q", name, *p) })
			case "envsingle":
				os.Setenv("VQ_E2", "fromenv")
				p := cmd.String(cli.StringArg{Name: name, EnvVar: "VQ_E2", SetByUser: s})
				os.Unsetenv("VQ_E2")
				readers = append(readers, func() string { return fmt.Sprintf("%s=%q", name, *p) })
			default:
				p := cmd.Strings(cli.StringsArg{Name: name, SetByUser: s})
				readers = append(readers, func() string { return fmt.Sprintf("%s=%q", name, *p) })
			}
		}
		cmd.Action = func() {
			ran++
			var v, b []string
			for _, r := range readers {
				v = append(v, r())
			}
			for _, s := range sbus {
				b = append(b, fmt.Sprint(*s))
			}
			obs.vals, obs.sbu = strings.Join(v, " "), strings.Join(b, ",")
		}
	})
	sharedBuf.Reset()
	o := runDirect(&sharedBuf, func() error { return app.Run(append([]string{"app", "sub"}, argv...)) })
	obs.stderr = sharedBuf.String()
	if o.Panicked || len(o.Exits) > 0 || ran > 1 {
		obs.bad = fmt.Sprintf("panic=%v exits=%v ran=%d", safeSprint(o.PanicVal), o.Exits, ran)
	}
	if o.Err != nil {
		obs.err = o.Err.Error()
	}
	obs.accepted = o.Returned && o.Err == nil && ran == 1
	return obs
}
