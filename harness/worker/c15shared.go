//go:build verif

package main

import (
	"flag"
	"fmt"

	cli "github.com/jawher/mow.cli"
)

// C15 (and C06) with ONE variable behind TWO declarations, each with its own SetByUser flag: the *Ptr forms and
// Var* let an application bind an option and an argument (or two options, or two arguments) to the same variable.
// Each declaration's flag still says whether the command line supplied a value for THAT declaration.

type sharedKind struct {
	name string
	vals [2]string
	// mk returns the two declaration functions over one fresh shared variable, and a reader
	mk func(cmd *cli.Cmd) (opt, arg func(name string, sbu *bool), read func() string)
	// how the variable reads when it holds exactly the command-line value v
	holds func(v string) string
	zero  string
}

var sharedKinds = []sharedKind{
	{name: "int", vals: [2]string{"1", "2"}, zero: "0", holds: func(v string) string { return v },
		mk: func(cmd *cli.Cmd) (func(string, *bool), func(string, *bool), func() string) {
			p := new(int)
			return func(n string, s *bool) { cmd.IntPtr(p, cli.IntOpt{Name: n, SetByUser: s}) },
				func(n string, s *bool) { cmd.IntPtr(p, cli.IntArg{Name: n, SetByUser: s}) },
				func() string { return fmt.Sprint(*p) }
		}},
	{name: "string", vals: [2]string{"s1", "s2"}, zero: "", holds: func(v string) string { return v },
		mk: func(cmd *cli.Cmd) (func(string, *bool), func(string, *bool), func() string) {
			p := new(string)
			return func(n string, s *bool) { cmd.StringPtr(p, cli.StringOpt{Name: n, SetByUser: s}) },
				func(n string, s *bool) { cmd.StringPtr(p, cli.StringArg{Name: n, SetByUser: s}) },
				func() string { return *p }
		}},
	{name: "bool", vals: [2]string{"true", "true"}, zero: "false", holds: func(v string) string { return v },
		mk: func(cmd *cli.Cmd) (func(string, *bool), func(string, *bool), func() string) {
			p := new(bool)
			return func(n string, s *bool) { cmd.BoolPtr(p, cli.BoolOpt{Name: n, SetByUser: s}) },
				func(n string, s *bool) { cmd.BoolPtr(p, cli.BoolArg{Name: n, SetByUser: s}) },
				func() string { return fmt.Sprint(*p) }
		}},
	{name: "float64", vals: [2]string{"1.5", "2.5"}, zero: "0", holds: func(v string) string { return v },
		mk: func(cmd *cli.Cmd) (func(string, *bool), func(string, *bool), func() string) {
			p := new(float64)
			return func(n string, s *bool) { cmd.Float64Ptr(p, cli.Float64Opt{Name: n, SetByUser: s}) },
				func(n string, s *bool) { cmd.Float64Ptr(p, cli.Float64Arg{Name: n, SetByUser: s}) },
				func() string { return fmt.Sprint(*p) }
		}},
	{name: "strings", vals: [2]string{"s1", "s2"}, zero: "[]", holds: func(v string) string { return "[" + v + "]" },
		mk: func(cmd *cli.Cmd) (func(string, *bool), func(string, *bool), func() string) {
			p := new([]string)
			return func(n string, s *bool) { cmd.StringsPtr(p, cli.StringsOpt{Name: n, SetByUser: s}) },
				func(n string, s *bool) { cmd.StringsPtr(p, cli.StringsArg{Name: n, SetByUser: s}) },
				func() string { return fmt.Sprint(*p) }
		}},
	{name: "ints", vals: [2]string{"1", "2"}, zero: "[]", holds: func(v string) string { return "[" + v + "]" },
		mk: func(cmd *cli.Cmd) (func(string, *bool), func(string, *bool), func() string) {
			p := new([]int)
			return func(n string, s *bool) { cmd.IntsPtr(p, cli.IntsOpt{Name: n, SetByUser: s}) },
				func(n string, s *bool) { cmd.IntsPtr(p, cli.IntsArg{Name: n, SetByUser: s}) },
				func() string { return fmt.Sprint(*p) }
		}},
	{name: "floats64", vals: [2]string{"1.5", "2.5"}, zero: "[]", holds: func(v string) string { return "[" + v + "]" },
		mk: func(cmd *cli.Cmd) (func(string, *bool), func(string, *bool), func() string) {
			p := new([]float64)
			return func(n string, s *bool) { cmd.Floats64Ptr(p, cli.Floats64Opt{Name: n, SetByUser: s}) },
				func(n string, s *bool) { cmd.Floats64Ptr(p, cli.Floats64Arg{Name: n, SetByUser: s}) },
				func() string { return fmt.Sprint(*p) }
		}},
	{name: "custom (Var)", vals: [2]string{"s1", "s2"}, zero: "", holds: func(v string) string { return v },
		mk: func(cmd *cli.Cmd) (func(string, *bool), func(string, *bool), func() string) {
			p := &lastVal{}
			return func(n string, s *bool) { cmd.Var(cli.VarOpt{Name: n, Value: p, SetByUser: s}) },
				func(n string, s *bool) { cmd.Var(cli.VarArg{Name: n, Value: p, SetByUser: s}) },
				func() string { return p.v }
		}},
}

// lastVal is a single-valued custom value: it holds the last token it was given.
type lastVal struct{ v string }

func (l *lastVal) Set(s string) error { l.v = s; return nil }
func (l *lastVal) String() string     { return l.v }

type sharedLayout struct {
	name  string
	spec  string
	decls [2]string // "opt:x" / "arg:X"
}

var sharedLayouts = []sharedLayout{
	{"option and argument", "[-x] [X]", [2]string{"opt:x", "arg:X"}},
	{"two options", "[-x] [-y]", [2]string{"opt:x", "opt:y"}},
	{"two arguments", "[X] [Y]", [2]string{"arg:X", "arg:Y"}},
}

func sharedCases(c *Ctx) {
	n := 0
	for ki := range sharedKinds {
		for li := range sharedLayouts {
			for mask := 0; mask < 4; mask++ {
				for swap := 0; swap < 2; swap++ {
					for nested := 0; nested < 2; nested++ {
						if sharedCase(c, ki, li, mask, swap == 1, nested == 1) {
							n++
						}
					}
				}
			}
		}
	}
	c.Note("one variable behind two declarations", fmt.Sprintf("%d cases: %d types (*Ptr forms, Var) x {option and argument, two options, two arguments} each with its own SetByUser x every subset of the two given on the command line x both orders where the spec allows x {root, sub-command}", n, len(sharedKinds)))
}

func sharedCase(c *Ctx, ki, li, mask int, swap, nested bool) bool {
	k, l := sharedKinds[ki], sharedLayouts[li]
	var given [2]bool
	given[0], given[1] = mask&1 != 0, mask&2 != 0
	tok := func(i int) []string {
		d := l.decls[i]
		if d[:3] == "opt" {
			return []string{"-" + d[4:] + "=" + k.vals[i]}
		}
		return []string{k.vals[i]}
	}
	var argv []string
	order := []int{0, 1}
	if swap {
		if li != 1 || mask != 3 {
			return false // only two options can be written in the other order
		}
		order = []int{1, 0}
	}
	if li == 2 && mask == 2 {
		return false // the second argument cannot be given without the first
	}
	for _, i := range order {
		if given[i] {
			argv = append(argv, tok(i)...)
		}
	}
	var sbu [2]bool
	var read func() string
	ran := 0
	app := cli.App("app", "")
	app.ErrorHandling = flag.ContinueOnError
	setup := func(cmd *cli.Cmd) {
		cmd.Spec = l.spec
		opt, arg, r := k.mk(cmd)
		read = r
		for i, d := range l.decls {
			if d[:3] == "opt" {
				opt(d[4:], &sbu[i])
			} else {
				arg(d[4:], &sbu[i])
			}
		}
		cmd.Action = func() { ran++ }
	}
	full := []string{"app"}
	if nested {
		app.Command("sub", "", setup)
		full = append(full, "sub")
	} else {
		setup(app.Cmd)
	}
	full = append(full, argv...)
	o := runIsolated(func() error { return app.Run(full) })
	c.Count("evaluations", 1)
	c.Count("shared_variable_cases", 1)
	if mask != 0 {
		c.Count("nontrivial", 1)
	}
	key := fmt.Sprintf("shared-variable type=%s layout=%q spec=%q argv=%q nested=%v", k.name, l.name, l.spec, argv, nested)
	cs := Case{"shared": true, "kind": ki, "layout": li, "mask": mask, "swap": swap, "nested": nested}
	if !(o.Returned && o.Err == nil && ran == 1) {
		if c.On("C06") {
			c.Violation("C06", key, cs, "accepted, the Action runs once", fmt.Sprintf("returned=%v err=%v panicked=%v (%s) action_runs=%d", o.Returned, o.Err, o.Panicked, safeSprint(o.PanicVal), ran))
		}
		return true
	}
	if c.On("C15") {
		c.Count("C15:evaluations", 1)
		if mask != 0 {
			c.Count("C15:nontrivial", 1)
		}
		if sbu != given {
			c.Violation("C15", key, cs, fmt.Sprintf("SetByUser of the two declarations %v = %v (each true iff the command line supplied a value for it)", l.decls, given), fmt.Sprintf("%v", sbu))
		}
	}
	if c.On("C06") {
		got := read()
		want := []string{k.zero}
		switch mask {
		case 1:
			want = []string{k.holds(k.vals[0])}
		case 2:
			want = []string{k.holds(k.vals[1])}
		case 3:
			// both declarations were given a value: the shared variable holds one of them (which one is not specified)
			want = []string{k.holds(k.vals[0]), k.holds(k.vals[1])}
		}
		ok := false
		for _, w := range want {
			ok = ok || w == got
		}
		if !ok {
			c.Violation("C06", key, cs, fmt.Sprintf("the variable holds %q", want), fmt.Sprintf("%q", got))
		}
	}
	return true
}

// Two multi-valued declarations given the SAME default slice by the caller: a value written for one of them never
// changes what the other one holds (its declared default when it was not given a value).
func sharedDefaultCases(c *Ctx) {
	n := 0
	for kind := 0; kind < 3; kind++ {
		for layout := 0; layout < 2; layout++ { // 0: two options, 1: option and argument
			for mask := 0; mask < 4; mask++ {
				for nested := 0; nested < 2; nested++ {
					n++
					sharedDefaultCase(c, kind, layout, mask, nested == 1)
				}
			}
		}
	}
	c.Note("one default slice behind two declarations", fmt.Sprintf("%d cases: strings / ints / floats64 x {two options, option and argument} x every subset given on the command line x {root, sub-command}", n))
}

func sharedDefaultCase(c *Ctx, kind, layout, mask int, nested bool) {
	kname := []string{"strings", "ints", "floats64"}[kind]
	vals := [][2]string{{"s1", "s2"}, {"5", "6"}, {"0.5", "6.25"}}[kind]
	dflt := []string{"[d1 d2]", "[7 8]", "[1.5 2.5]"}[kind]
	var argv []string
	if mask&1 != 0 {
		argv = append(argv, "-x="+vals[0])
	}
	if mask&2 != 0 {
		if layout == 0 {
			argv = append(argv, "-y="+vals[1])
		} else {
			argv = append(argv, vals[1])
		}
	}
	var reads [2]func() string
	ran := 0
	app := cli.App("app", "")
	app.ErrorHandling = flag.ContinueOnError
	setup := func(cmd *cli.Cmd) {
		cmd.Spec = "[-x] [-y]"
		if layout == 1 {
			cmd.Spec = "[-x] [Y]"
		}
		switch kind {
		case 0:
			d := []string{"d1", "d2"}
			p := cmd.Strings(cli.StringsOpt{Name: "x", Value: d})
			reads[0] = func() string { return fmt.Sprint(*p) }
			var q *[]string
			if layout == 0 {
				q = cmd.Strings(cli.StringsOpt{Name: "y", Value: d})
			} else {
				q = cmd.Strings(cli.StringsArg{Name: "Y", Value: d})
			}
			reads[1] = func() string { return fmt.Sprint(*q) }
		case 1:
			d := []int{7, 8}
			p := cmd.Ints(cli.IntsOpt{Name: "x", Value: d})
			reads[0] = func() string { return fmt.Sprint(*p) }
			var q *[]int
			if layout == 0 {
				q = cmd.Ints(cli.IntsOpt{Name: "y", Value: d})
			} else {
				q = cmd.Ints(cli.IntsArg{Name: "Y", Value: d})
			}
			reads[1] = func() string { return fmt.Sprint(*q) }
		default:
			d := []float64{1.5, 2.5}
			p := cmd.Floats64(cli.Floats64Opt{Name: "x", Value: d})
			reads[0] = func() string { return fmt.Sprint(*p) }
			var q *[]float64
			if layout == 0 {
				q = cmd.Floats64(cli.Floats64Opt{Name: "y", Value: d})
			} else {
				q = cmd.Floats64(cli.Floats64Arg{Name: "Y", Value: d})
			}
			reads[1] = func() string { return fmt.Sprint(*q) }
		}
		cmd.Action = func() { ran++ }
	}
	full := []string{"app"}
	if nested {
		app.Command("sub", "", setup)
		full = append(full, "sub")
	} else {
		setup(app.Cmd)
	}
	full = append(full, argv...)
	o := runIsolated(func() error { return app.Run(full) })
	c.Count("evaluations", 1)
	c.Count("shared_default_slice_cases", 1)
	if mask != 0 {
		c.Count("nontrivial", 1)
	}
	if !c.On("C06") {
		return
	}
	key := fmt.Sprintf("shared-default-slice type=%s layout=%d argv=%q nested=%v", kname, layout, argv, nested)
	cs := Case{"shared_default": true, "kind": kind, "layout": layout, "mask": mask, "nested": nested}
	if !(o.Returned && o.Err == nil && ran == 1) {
		c.Violation("C06", key, cs, "accepted, the Action runs once", fmt.Sprintf("returned=%v err=%v panicked=%v action_runs=%d", o.Returned, o.Err, o.Panicked, ran))
		return
	}
	want := [2]string{dflt, dflt}
	if mask&1 != 0 {
		want[0] = "[" + vals[0] + "]"
	}
	if mask&2 != 0 {
		want[1] = "[" + vals[1] + "]"
	}
	got := [2]string{reads[0](), reads[1]()}
	if got != want {
		c.Violation("C06", key, cs, fmt.Sprintf("the two variables hold %v (both declared with the same default slice %s)", want, dflt), fmt.Sprintf("%v", got))
	}
}
