//go:build verif

package main

import (
	"fmt"
	"strings"
)

// C07: rejected invocations run nothing and follow the configured error policy;
// accepted invocations return nil and never exit or panic on their own.

func init() {
	register(&CheckDef{Name: "policy", Props: []string{"C07"}, Run: runPolicy, Replay: replayPolicy})
}

// valid and invalid per-level argvs: spec mismatch, undeclared option, missing value, unconvertible value
var policyUniverse = [][]string{{}, {"x"}, {"-f", "x"}, {"-z"}, {"-i=zz"}, {"-i", "5"}, {"-o"}, {"zz"}, {"7"}, {"-i=zz", "-i=5"}, {"-"},
	// an unconvertible value with a per cent sign: the error stream carries the error text byte for byte
	{"-i=5%"}}

// c07NoAction: slots of the tree whose command gets no Action (stage policy-no-action; nil elsewhere)
var c07NoAction map[int]bool

// policyNoAction: command groups without an Action whose own spec requires something. Addressing such a group
// without the tokens its spec needs is a rejection like any other (an Action-less command only shows its help
// after its own tokens were validated); accepted invocations that end on an Action-less command are not judged.
func policyNoAction(c *Ctx) {
	shape := treeShapes(false)[0]
	slots := numberSlots(shape)
	n := 0
	universe := [][]string{{}, {"x"}, {"-f"}, {"-f", "x"}, {"-z"}, {"7"}, {"zz"}}
	unit := 0
	kindAssignments(len(slots), []int{3, 7, 14}, func(assign []int) {
		unit++
		if !c.Mine(unit) || !c.Begin("policy-no-action", fmt.Sprint(assign)) {
			return
		}
		as := append([]int{}, assign...)
		for mask := 1; mask < 4; mask++ { // the root (slot of shape) and its first child group
			na := map[int]bool{}
			if mask&1 != 0 {
				na[shape.slot] = true
			}
			if mask&2 != 0 {
				na[shape.kids[0].slot] = true
			}
			enumPaths(shape, func(target *tnode, names []string) {
				path := pathNodes(target)
				per := make([][][]string, len(path))
				for i, nd := range path {
					per[i] = levelArgvs(nd, universe)
				}
				enumInvocations(path, names, per, func(args []string, own [][]string) {
					c.Beat()
					for rp := 0; rp < 3; rp++ {
						pols := make([]int, len(slots))
						for i := range pols {
							pols[i] = -1
						}
						pols[0] = rp
						c07NoAction = na
						policyCaseV(c, 0, shape, as, pols, append([]string{}, args...), false)
						c07NoAction = nil
						c.Count("no_action_cases", 1)
					}
				})
			})
		}
	})
	_ = n
	if c.Shard != 0 {
		return
	}
	c.Note("groups without an Action", fmt.Sprintf("shape 0 (counter no_action_cases), %d spec assignments: specs %q / %q / %q on every level, no Action on the root, on its first child group or on both, per-level argvs %v, three root policies; rejected invocations judged as everywhere, accepted ones that end on an Action-less command not judged", unit, lvlKinds[3].spec, lvlKinds[7].spec, lvlKinds[14].spec, universe))
}

func runPolicy(c *Ctx) {
	if c.Shard == 0 && c.Begin("policy-versioned") {
		policyVersioned(c)
	}
	policyNoAction(c)
	if c.Shard == 0 && c.Begin("policy-deep") {
		deepReject(c)
	}
	if c.Shard == 0 && c.Begin("policy-rerun") {
		policyRerun(c)
		c.Note("second runs", "shape 0 with declaration-free sub-commands: a first accepted Run, then on the same instance a second Run over {rejections at c1 / d1 / c2, one accepted control} x every policy assignment of the path")
	}
	idx := 0
	kinds := []int{1, 3, 6, 7}
	shapes := treeShapes(c.Thorough())
	for si, shape := range shapes {
		slots := numberSlots(shape)
		ks := kinds
		if !c.Thorough() {
			ks = []int{3, 6, 7}
			if si > 0 {
				ks = []int{3, 6}
			}
		}
		if len(slots) > 4 {
			ks = []int{3, 6}
		}
		ntrees := 0
		kindAssignments(len(slots), ks, func(assign []int) {
			ntrees++
			idx++
			if !c.Mine(idx) {
				return
			}
			if !c.Begin("policy", fmt.Sprint(si), fmt.Sprint(assign)) {
				return
			}
			as := append([]int{}, assign...)
			enumPaths(shape, func(target *tnode, names []string) {
				// one alias combination is enough here (C04 covers aliases): primary names, and all-secondary
				primary, secondary := true, true
				p := pathNodes(target)
				for i, nm := range names {
					if nm != p[i+1].aliases[0] {
						primary = false
					}
					if nm != p[i+1].aliases[len(p[i+1].aliases)-1] {
						secondary = false
					}
				}
				if !primary && !secondary {
					return
				}
				per := make([][][]string, len(p))
				for i, n := range p {
					per[i] = levelArgvs(n, policyUniverse)
				}
				// every combination of policies set per level along the path (other commands inherit)
				// the root always sets one (3 values); deeper levels set one or inherit (4 values)
				npol := 3
				for range p[1:] {
					npol *= 4
				}
				enumInvocations(p, names, per, func(args []string, own [][]string) {
					for pc := 0; pc < npol; pc++ {
						pols := make([]int, len(slots))
						for i := range pols {
							pols[i] = -1
						}
						x := pc
						for i, n := range p {
							if i == 0 {
								pols[n.slot] = x % 3
								x /= 3
							} else {
								pols[n.slot] = x%4 - 1 // -1 = not set in the initializer: inherited from the parent
								x /= 4
							}
						}
						c.Beat()
						policyCase(c, si, shape, as, pols, args)
					}
				})
			})
		})
		if c.Shard == 0 {
			c.Note(fmt.Sprintf("shape %d", si), fmt.Sprintf("%s: %d spec assignments over kinds %v (specs %s); every target x {primary, secondary} aliases x per-level argvs %v x every assignment of {Continue, Exit, Panic} to the root and of {inherit, Continue, Exit, Panic} to every deeper level of the path (set inside each initializer)", shapeText(shape), ntrees, ks, kindSpecs(ks), policyUniverse))
		}
	}
}

// policyRerun: a second Run on the SAME application instance (sub-commands without declarations, which can be
// initialised twice) must follow the policy exactly like a first one.
func policyRerun(c *Ctx) {
	shape := treeShapes(false)[0]
	slots := numberSlots(shape)
	for _, rootKind := range []int{3, 6} {
		assign := make([]int, len(slots))
		assign[0] = rootKind
		rootOK := map[int][]string{3: {"x"}, 6: {}}[rootKind]
		firsts := [][]string{append(append([]string{}, rootOK...), "c1", "d1"), append(append([]string{}, rootOK...), "c2"), append(append([]string{}, rootOK...), "k1")}
		seconds := [][]string{{"c1", "x"}, {"c1", "d1", "x"}, {"k1", "e1", "-z"}, {"c2", "x"}, {"c1", "d1"}}
		for pc := 0; pc < 3*4*4; pc++ {
			pols := make([]int, len(slots))
			for i := range pols {
				pols[i] = -1
			}
			pols[0] = pc % 3
			pols[1] = (pc/3)%4 - 1
			pols[2] = (pc/12)%4 - 1
			for _, first := range firsts {
				for _, sec := range seconds {
					second := append(append([]string{}, rootOK...), sec...)
					app, tr := buildTree(shape, treeOpts{kinds: assign, pols: pols, rootPol: pols[0], hooks: true})
					o1 := runIsolated(func() error { return app.Run(append([]string{"app"}, first...)) })
					if !(o1.Returned && o1.Err == nil) {
						continue // judged by the main enumeration
					}
					tr.calls = nil
					o := runIsolated(func() error { return app.Run(append([]string{"app"}, second...)) })
					c.Count("evaluations", 1)
					c.Count("second_runs_on_same_instance", 1)
					r := route(shape, assign, second)
					key := fmt.Sprintf("tree=%s specs=%s policies=%s first Run %q then second Run %q on the same instance", shapeText(shape), specsText(shape, assign), polsText(shape, pols), first, second)
					cs := Case{"rerun": true, "kinds": assign, "pols": pols, "first": first, "args": second}
					obs := fmt.Sprintf("calls=%v returned=%v err=%v panicked=%v panicval=%v exits=%v", tr.calls, o.Returned, o.Err, o.Panicked, safeSprint(o.PanicVal), o.Exits)
					if r.target != nil {
						if !(o.Returned && o.Err == nil && !o.Panicked && len(o.Exits) == 0) {
							c.Violation("C07", key, cs, "accepted: Run returns nil", obs)
						}
						continue
					}
					c.Count("nontrivial", 1)
					pol := -1
					for n := r.rejectAt; n != nil && pol < 0; n = n.parent {
						pol = pols[n.slot]
					}
					ok := len(tr.calls) == 0 && hasUsageOf(o.Stderr, r.rejectAt)
					switch pol {
					case 0:
						ok = ok && o.Returned && o.Err != nil && len(o.Exits) == 0 && !o.Panicked
					case 1:
						ok = ok && len(o.Exits) == 1 && o.Exits[0] == 2 && !o.Panicked && !o.Returned
					case 2:
						_, isErr := o.PanicVal.(error)
						ok = ok && o.Panicked && isErr && len(o.Exits) == 0
					}
					if !ok {
						c.Violation("C07", key, cs, fmt.Sprintf("rejected at %s under %s: nothing runs, usage of that command printed, policy followed", r.rejectAt.path(), []string{"ContinueOnError", "ExitOnError", "PanicOnError"}[pol]), obs)
					}
				}
			}
		}
	}
}

func kindSpecs(ks []int) string {
	var p []string
	for _, k := range ks {
		p = append(p, fmt.Sprintf("%q", lvlKinds[k].spec))
	}
	return strings.Join(p, ",")
}

// deepReject: a five-level tree with siblings on every level; every command rejects an unknown option / a stray
// argument, and the usage printed is the one of exactly that command (full path).
func deepReject(c *Ctx) {
	shape := mkTree("app", mkTree("c1", mkTree("d1", mkTree("e1 f1", mkTree("g1"), mkTree("g2 h2"), mkTree("g3")), mkTree("e2", mkTree("g4")), mkTree("e3 f3", mkTree("g5"), mkTree("g6"))), mkTree("d2")), mkTree("c2"))
	slots := numberSlots(shape)
	assign := make([]int, len(slots)) // kind 0 everywhere: no option, no argument
	n := 0
	enumPaths(shape, func(target *tnode, names []string) {
		for pol := 0; pol < 3; pol++ {
			pols := make([]int, len(slots))
			for i := range pols {
				pols[i] = -1
			}
			pols[shape.slot] = pol
			for _, tail := range [][]string{{"-z"}, {"stray"}} {
				if len(tail) == 1 && tail[0] == "stray" && len(target.kids) > 0 {
					// still a rejection (not a sub-command name), at the same command
				}
				n++
				policyCaseV(c, 99, shape, assign, pols, append(append([]string{}, names...), tail...), false)
			}
		}
	})
	c.Note("deep tree", fmt.Sprintf("%s: %d rejections (an unknown option, a stray argument) at every command reached through every alias combination x the three root policies", shapeText(shape), n))
}

func replayPolicy(c *Ctx, cs Case) {
	if cInt(cs, "shape") == 99 {
		deepReject(c) // small: the whole deep-tree enumeration
		return
	}
	if rr, _ := cs["rerun"].(bool); rr {
		policyRerun(c) // small: re-run the whole second-run enumeration
		return
	}
	shape := treeShapes(true)[cInt(cs, "shape")]
	numberSlots(shape)
	var assign, pols []int
	for _, x := range cs["kinds"].([]interface{}) {
		assign = append(assign, int(x.(float64)))
	}
	for _, x := range cs["pols"].([]interface{}) {
		pols = append(pols, int(x.(float64)))
	}
	ver, _ := cs["version_declared"].(bool)
	if l, ok := cs["no_action"].([]interface{}); ok && len(l) > 0 {
		c07NoAction = map[int]bool{}
		for _, x := range l {
			c07NoAction[int(x.(float64))] = true
		}
	}
	policyCaseV(c, cInt(cs, "shape"), shape, assign, pols, cStrs(cs, "args"), ver)
	c07NoAction = nil
}

func policyCase(c *Ctx, si int, shape *tnode, assign, pols []int, args []string) {
	policyCaseV(c, si, shape, assign, pols, args, false)
}

// version: the root also declares Version("v version"); a version flag that is not the first argument is no request
var policyVersionArgvs = [][]string{{"-z", "-v"}, {"x", "y", "-v"}, {"x", "-v"}, {"-f", "--version"}, {"-i=zz", "-v"}, {"zz", "--version"}, {"x", "-v", "c1"}, {"-i", "5", "-v", "c1", "x"}, {"--", "-v", "x", "y"}}

func policyVersioned(c *Ctx) {
	shape := treeShapes(false)[0]
	slots := numberSlots(shape)
	n := 0
	for _, rootKind := range []int{3, 6} {
		assign := make([]int, len(slots))
		for i := range assign {
			assign[i] = 3
		}
		assign[shape.slot] = rootKind
		for pol := 0; pol < 3; pol++ {
			pols := make([]int, len(slots))
			for i := range pols {
				pols[i] = -1
			}
			pols[shape.slot] = pol
			for _, av := range policyVersionArgvs {
				n++
				policyCaseV(c, 0, shape, assign, pols, av, true)
			}
		}
	}
	c.Note("version flag declared", fmt.Sprintf("%d cases: shape 0, root specs %q / %q, the three root policies, argvs %v (the version flag never in first position)", n, lvlKinds[3].spec, lvlKinds[6].spec, policyVersionArgvs))
}

func policyCaseV(c *Ctx, si int, shape *tnode, assign, pols []int, args []string, version bool) {
	rootPol := pols[0]
	noAct := c07NoAction
	app, tr := buildTree(shape, treeOpts{kinds: assign, pols: pols, rootPol: rootPol, hooks: true, version: version, noAction: noAct})
	o := runIsolated(func() error { return app.Run(append([]string{"app"}, args...)) })
	r := route(shape, assign, args)
	c.Count("evaluations", 1)
	if r.target != nil && noAct[r.target.slot] {
		c.Count("unclaimed", 1) // ends on a command without an Action: outside C07
		return
	}
	if r.unclaimed {
		c.Count("unclaimed", 1)
		return
	}
	key := fmt.Sprintf("tree=%s specs=%s policies=%s args=%q", shapeText(shape), specsText(shape, assign), polsText(shape, pols), args)
	if version {
		key += " Version(\"v version\") declared on the root"
	}
	cs := func() Case {
		var na []int
		for k := range noAct {
			na = append(na, k)
		}
		return Case{"shape": si, "kinds": assign, "pols": pols, "args": args, "version_declared": version, "no_action": na}
	}
	obs := fmt.Sprintf("calls=%v returned=%v err=%v panicked=%v panicval=%v exits=%v", tr.calls, o.Returned, o.Err, o.Panicked, safeSprint(o.PanicVal), o.Exits)
	if r.target != nil {
		// accepted: returns nil, no exit, no panic; Befores, Action, Afters of the path in nesting order
		var want []string
		for _, n := range r.levels {
			want = append(want, "B:"+n.path())
		}
		want = append(want, "A:"+r.target.path())
		for i := len(r.levels) - 1; i >= 0; i-- {
			want = append(want, "F:"+r.levels[i].path())
		}
		c.Count("accepted_controls", 1)
		if !(o.Returned && o.Err == nil && !o.Panicked && len(o.Exits) == 0) || strings.Join(tr.calls, " ") != strings.Join(want, " ") {
			c.Violation("C07", key, cs(), "accepted: calls "+strings.Join(want, " ")+", Run returns nil, no exit, no panic", obs)
		}
		return
	}
	c.Count("nontrivial", 1)
	if r.rejectAt.parent != nil {
		c.Count("rejections_below_root", 1)
	}
	// effective policy of the rejecting command: its own setting, else the nearest ancestor's
	pol := -1
	for n := r.rejectAt; n != nil && pol < 0; n = n.parent {
		pol = pols[n.slot]
	}
	bad := ""
	if len(tr.calls) != 0 {
		bad = "hooks/actions ran"
	}
	if i := strings.Index(o.Stderr, "Usage: "); i < 0 || strings.TrimSpace(o.Stderr[:i]) == "" {
		bad = "no error text on the error stream before the usage"
	} else if o.Err != nil && !strings.Contains(o.Stderr[:i], o.Err.Error()) {
		bad = "the error stream does not carry the text of the returned error"
	} else if pe, isErr := o.PanicVal.(error); o.Panicked && isErr && pe != nil && !strings.Contains(o.Stderr[:i], pe.Error()) {
		bad = "the error stream does not carry the text of the error the policy panics with"
	}
	if !hasUsageOf(o.Stderr, r.rejectAt) {
		bad = "the error stream lacks the usage line of the rejecting command: " + usageLine(r.rejectAt, assign)
	}
	switch pol {
	case 0: // ContinueOnError
		if !(o.Returned && o.Err != nil && len(o.Exits) == 0 && !o.Panicked) {
			bad = "ContinueOnError: expected a non-nil error returned, no exit, no panic"
		}
	case 1: // ExitOnError
		if !(len(o.Exits) == 1 && o.Exits[0] == 2 && !o.Panicked && !o.Returned) {
			bad = "ExitOnError: expected exactly one exit with status 2"
		}
	case 2: // PanicOnError
		_, isErr := o.PanicVal.(error)
		if !(o.Panicked && isErr && o.PanicVal != nil && len(o.Exits) == 0) {
			bad = "PanicOnError: expected a panic with the (non-nil) error"
		}
	}
	if bad != "" {
		c.Violation("C07", key, cs(), fmt.Sprintf("rejected at %s under %s: nothing runs, error and usage of that command printed, policy followed", r.rejectAt.path(), []string{"ContinueOnError", "ExitOnError", "PanicOnError"}[pol]), bad+"; "+obs+" stderr="+fmt.Sprintf("%q", firstLines(o.Stderr, 4)))
	} else if c.WantSample(fmt.Sprintf("reject-level%d-policy%d", len(r.levels)-1, pol)) {
		c.Sample(fmt.Sprintf("reject-level%d-policy%d", len(r.levels)-1, pol), Case{"tree": shapeText(shape), "specs": specsText(shape, assign), "policies": polsText(shape, pols), "args": args, "rejected_at": r.rejectAt.path(), "observed": obs})
	}
}

func firstLines(s string, n int) string {
	l := strings.Split(s, "\n")
	if len(l) > n {
		l = l[:n]
	}
	return strings.Join(l, "\n")
}

func polsText(shape *tnode, pols []int) string {
	var p []string
	for _, n := range numberSlots(shape) {
		if pols[n.slot] >= 0 {
			p = append(p, n.aliases[0]+":"+[]string{"Continue", "Exit", "Panic"}[pols[n.slot]])
		}
	}
	return strings.Join(p, " ")
}
