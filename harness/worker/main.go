//go:build verif

// Worker: runs the real library on one shard of a check's bounded space and
// judges every run with the reference models of package ref (which imports
// nothing from the library). Built INTO the module of /repo through
// `go build -overlay` as github.com/jawher/mow.cli/internal/zverif/worker.
package main

import (
	"bufio"
	"encoding/hex"
	"encoding/json"
	"flag"
	"fmt"
	"os"
	"runtime"
	"runtime/debug"
	"sort"
	"strings"
	"sync"
	"sync/atomic"
	"syscall"
	"time"
)

// ---------------------------------------------------------------- framework

// Case is the self-contained, replayable description of one explored case.
type Case map[string]interface{}

type Violation struct {
	T    string `json:"t"`
	Prop string `json:"prop"`
	Key  string `json:"key"` // canonical text identifying the failing case
	Case Case   `json:"case"`
	Exp  string `json:"exp"`
	Obs  string `json:"obs"`
}

type Ctx struct {
	Check   string
	Tier    string
	Shard   int
	NShards int
	Props   map[string]bool // which properties' oracles are enabled
	Params  map[string]string

	mu       sync.Mutex
	out      *bufio.Writer
	counters map[string]int64
	samples  map[string][]interface{}
	nviol    map[string]int
	notes    map[string]string

	ordinal   uint64 // cases started (for the watchdog / skip-to)
	skipTo    uint64
	until     uint64 // when >0: stop after the case with this ordinal
	lastSnap  int64
	lastBeat  int64
	state     []byte // mmap'ed crash-location record
	replaying bool
	start     time.Time
}

func (c *Ctx) Thorough() bool { return c.Tier == "thorough" }
func (c *Ctx) On(p string) bool {
	return c.Props[p]
}

// Mine reports whether item i of a shard-partitioned enumeration belongs to this shard.
func (c *Ctx) Mine(i int) bool { return c.NShards <= 1 || i%c.NShards == c.Shard }

func (c *Ctx) Count(name string, n int64) {
	c.mu.Lock()
	c.counters[name] += n
	c.mu.Unlock()
}

func (c *Ctx) Max(name string, n int64) {
	c.mu.Lock()
	if n > c.counters[name] {
		c.counters[name] = n
	}
	c.mu.Unlock()
}

func (c *Ctx) Note(name, v string) {
	c.mu.Lock()
	c.notes[name] = v
	c.mu.Unlock()
}

// Sample keeps the first few cases of each class so that evidence shows what cases look like.
func (c *Ctx) Sample(class string, v interface{}) {
	c.mu.Lock()
	if len(c.samples[class]) < 3 {
		c.samples[class] = append(c.samples[class], v)
	}
	c.mu.Unlock()
}

func (c *Ctx) WantSample(class string) bool {
	c.mu.Lock()
	defer c.mu.Unlock()
	return len(c.samples[class]) < 3
}

const maxViolPerProp = 200

func (c *Ctx) Violation(prop, key string, cs Case, exp, obs string) {
	c.mu.Lock()
	defer c.mu.Unlock()
	c.counters["violations_"+prop]++
	c.nviol[prop]++
	if c.nviol[prop] > maxViolPerProp {
		return
	}
	cs["check"] = c.Check
	b, _ := json.Marshal(Violation{"viol", prop, key, cs, exp, obs})
	c.out.Write(b)
	c.out.WriteByte('\n')
	c.out.Flush()
}

// Begin marks the start of one case: it records where we are (so that a crash or
// a hang can be attributed to exactly this case by the driver) and tells whether
// the case has to be executed (false while fast-forwarding after a restart).
func (c *Ctx) Begin(parts ...string) bool {
	ord := atomic.AddUint64(&c.ordinal, 1)
	if ord <= c.skipTo {
		return false
	}
	if c.until > 0 && ord > c.until {
		c.finish()
		os.Exit(0)
	}
	now := time.Now().UnixNano()
	atomic.StoreInt64(&c.lastBeat, now)
	if c.state != nil {
		writeState(c.state, ord, parts)
	}
	if now-c.lastSnap > 1e9 {
		c.lastSnap = now
		c.snapshot("snap")
	}
	return true
}

// snapshot emits the counters accumulated so far, so that a worker that dies later does not lose them.
func (c *Ctx) snapshot(kind string) {
	c.mu.Lock()
	fin := map[string]interface{}{
		"t": kind, "counters": c.counters, "samples": c.samples, "notes": c.notes,
		"wall_s": time.Since(c.start).Seconds(), "ordinal": atomic.LoadUint64(&c.ordinal),
	}
	b, _ := json.Marshal(fin)
	c.out.Write(b)
	c.out.WriteByte('\n')
	c.out.Flush()
	c.mu.Unlock()
}

// Mark refines the crash-location record inside the current Begin() unit (no new
// ordinal): the parts identify the exact sub-case being executed.
func (c *Ctx) Mark(parts ...string) {
	atomic.StoreInt64(&c.lastBeat, time.Now().UnixNano())
	if c.state != nil {
		writeState(c.state, atomic.LoadUint64(&c.ordinal), parts)
	}
}

// Beat is a cheap liveness signal for long loops between Begin calls.
func (c *Ctx) Beat() { atomic.StoreInt64(&c.lastBeat, time.Now().UnixNano()) }

func writeState(st []byte, ord uint64, parts []string) {
	// layout: [0:8] ordinal, [8:12] payload length, [12:] payload (parts joined by 0x1f)
	p := 12
	for i, s := range parts {
		if i > 0 && p < len(st) {
			st[p] = 0x1f
			p++
		}
		n := copy(st[p:], s)
		p += n
	}
	n := p - 12
	st[8], st[9], st[10], st[11] = byte(n), byte(n>>8), byte(n>>16), byte(n>>24)
	for i := 0; i < 8; i++ {
		st[i] = byte(ord >> (8 * uint(i)))
	}
}

type CheckDef struct {
	Name  string
	Props []string
	Run   func(c *Ctx)
	// Replay re-runs one recorded case alone and reports violations through c.
	Replay func(c *Ctx, cs Case)
	// ReplayCrash re-runs the sub-case identified by the parts of a crash-location record.
	ReplayCrash func(c *Ctx, parts []string)
}

var registry = map[string]*CheckDef{}

func register(d *CheckDef) { registry[d.Name] = d }

func main() {
	debug.SetMaxStack(64 << 20)
	debug.SetGCPercent(200)
	var (
		check    = flag.String("check", "", "check name")
		tier     = flag.String("tier", "quick", "quick|thorough")
		shard    = flag.Int("shard", 0, "shard index")
		nshards  = flag.Int("n", 1, "number of shards")
		props    = flag.String("props", "", "comma separated properties whose oracles are enabled (default: all of the check)")
		stateF   = flag.String("state", "", "crash-location file (mmap)")
		skipTo   = flag.Uint64("skip-to", 0, "fast-forward: do not execute cases with ordinal <= this")
		replay   = flag.String("replay", "", "replay the case stored in this file")
		hangSecs = flag.Int("hang", 10, "seconds without progress before the worker declares a hang")
		params   = flag.String("params", "", "k=v,k=v extra parameters")
		list     = flag.Bool("list", false, "list checks")
	)
	flag.Parse()
	if *list {
		var names []string
		for n := range registry {
			names = append(names, n)
		}
		sort.Strings(names)
		fmt.Println(strings.Join(names, "\n"))
		return
	}
	scrubEnv()
	c := &Ctx{
		Tier: *tier, Shard: *shard, NShards: *nshards, Props: map[string]bool{},
		Params:   map[string]string{},
		out:      bufio.NewWriterSize(os.Stdout, 1<<16),
		counters: map[string]int64{}, samples: map[string][]interface{}{}, nviol: map[string]int{}, notes: map[string]string{},
		skipTo: *skipTo,
	}
	setTick(c)
	for _, kv := range strings.Split(*params, ",") {
		if i := strings.IndexByte(kv, '='); i > 0 {
			c.Params[kv[:i]] = kv[i+1:]
		}
	}
	var rcase Case
	if *replay != "" {
		b, err := os.ReadFile(*replay)
		if err != nil {
			fmt.Fprintln(os.Stderr, err)
			os.Exit(4)
		}
		var rf struct {
			Prop string `json:"property"`
			Case Case   `json:"case"`
		}
		if err := json.Unmarshal(b, &rf); err != nil || rf.Case == nil {
			fmt.Fprintln(os.Stderr, "bad replay file", err)
			os.Exit(4)
		}
		rcase = rf.Case
		*check, _ = rcase["check"].(string)
		if *props == "" {
			*props = rf.Prop
		}
		c.replaying = true
	}
	d := registry[*check]
	if d == nil {
		fmt.Fprintln(os.Stderr, "unknown check", *check)
		os.Exit(4)
	}
	c.Check = d.Name
	if *props == "" {
		for _, p := range d.Props {
			c.Props[p] = true
		}
	} else {
		for _, p := range strings.Split(*props, ",") {
			c.Props[p] = true
		}
	}
	if *stateF != "" {
		f, err := os.OpenFile(*stateF, os.O_RDWR|os.O_CREATE, 0644)
		if err == nil {
			f.Truncate(8192)
			st, err := syscall.Mmap(int(f.Fd()), 0, 8192, syscall.PROT_READ|syscall.PROT_WRITE, syscall.MAP_SHARED)
			if err == nil {
				c.state = st
				for i := range st[:12] {
					st[i] = 0
				}
			}
		}
	}
	atomic.StoreInt64(&c.lastBeat, time.Now().UnixNano())
	// watchdog: hang and memory
	go func() {
		var ms runtime.MemStats
		tick := 0
		for {
			time.Sleep(200 * time.Millisecond)
			tick++
			if time.Since(time.Unix(0, atomic.LoadInt64(&c.lastBeat))) > time.Duration(*hangSecs)*time.Second {
				fmt.Fprintf(os.Stderr, "WORKER-HANG ordinal=%d\n", atomic.LoadUint64(&c.ordinal))
				os.Exit(3)
			}
			if tick%10 == 0 {
				runtime.ReadMemStats(&ms)
				if ms.HeapAlloc > 6<<30 {
					fmt.Fprintf(os.Stderr, "WORKER-OOM ordinal=%d\n", atomic.LoadUint64(&c.ordinal))
					os.Exit(5)
				}
			}
		}
	}()
	c.start = time.Now()
	parts := cStrs(rcase, "crash_parts")
	if hp := cStrs(rcase, "crash_parts_hex"); len(hp) > 0 {
		parts = nil
		for _, h := range hp {
			b, _ := hex.DecodeString(h)
			parts = append(parts, string(b))
		}
	}
	if c.replaying && len(parts) > 0 {
		if d.ReplayCrash == nil {
			fmt.Fprintln(os.Stderr, "check has no crash replay")
			os.Exit(4)
		}
		d.ReplayCrash(c, parts)
	} else if c.replaying {
		if d.Replay == nil {
			fmt.Fprintln(os.Stderr, "check has no replay")
			os.Exit(4)
		}
		d.Replay(c, rcase)
	} else {
		d.Run(c)
	}
	c.finish()
}

func (c *Ctx) finish() { c.snapshot("done") }

// scrubEnv removes every environment variable a case could name, so that a case
// sees exactly the variables it sets itself.
func scrubEnv() {
	for _, kv := range os.Environ() {
		if strings.HasPrefix(kv, "VQ_") {
			os.Unsetenv(kv[:strings.IndexByte(kv, '=')])
		}
	}
}

func jstr(v interface{}) string {
	b, _ := json.Marshal(v)
	return string(b)
}

// helpers to read replayed cases
func cStr(cs Case, k string) string {
	// strings that are not valid UTF-8 do not survive JSON: they travel hex-encoded under <key>_hex
	if h, ok := cs[k+"_hex"].(string); ok {
		if b, err := hex.DecodeString(h); err == nil {
			return string(b)
		}
	}
	s, _ := cs[k].(string)
	return s
}

// hx is the hex form stored next to a raw string in a replayable case.
func hx(s string) string { return hex.EncodeToString([]byte(s)) }

func hxs(a []string) []string {
	r := make([]string, len(a))
	for i, s := range a {
		r[i] = hx(s)
	}
	return r
}
func cInt(cs Case, k string) int {
	f, _ := cs[k].(float64)
	return int(f)
}
func cBool(cs Case, k string) bool {
	b, _ := cs[k].(bool)
	return b
}
func cStrs(cs Case, k string) []string {
	if ha, ok := cs[k+"_hex"].([]interface{}); ok {
		var r []string
		for _, x := range ha {
			h, _ := x.(string)
			b, _ := hex.DecodeString(h)
			r = append(r, string(b))
		}
		return r
	}
	a, _ := cs[k].([]interface{})
	var r []string
	for _, x := range a {
		s, _ := x.(string)
		r = append(r, s)
	}
	return r
}
func cMap(cs Case, k string) map[string]string {
	m, _ := cs[k].(map[string]interface{})
	r := map[string]string{}
	for a, b := range m {
		r[a], _ = b.(string)
	}
	return r
}
