//go:build verif && !verifstruct

package main

// Fallback build (the library's internal lexer API is not what the harness was written against): the token
// partition clause of C08 is not judged.
func tokenPartition(c *Ctx, spec string, ds *declSet, key string, cs func() Case, refTokens int) {
	c.Count("token_partition_not_judged", 1)
}
