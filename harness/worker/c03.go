//go:build verif

package main

import (
	"fmt"
	"strings"

	"github.com/jawher/mow.cli/internal/zverif/ref"
)

// C03: compiling any spec string and parsing any command line with it always
// terminates with a documented outcome. Every case is its own Begin() so that a
// worker that dies or hangs is attributed to exactly one (spec, argv, env) case.

func init() {
	register(&CheckDef{Name: "term", Props: []string{"C03"}, Run: runTerm, Replay: replayTerm, ReplayCrash: replayTermCrash})
}

var (
	// class representatives; the last two are multi-byte characters whose low code-point byte is an ASCII
	// letter (U+016F -> 'o', U+0141 -> 'A'): they belong to no name
	c03Bytes   = []string{" ", "\t", "[", "]", "(", ")", "|", ".", "-", "=", "<", ">", "a", "z", "X", "Q", "1", "_", "$", "\xc3", "\u016f", "\u0141"}
	c03BytesSm = []string{" ", "[", "]", "(", ")", "|", ".", "-", "=", "<", ">", "a", "X"}
	// space (iv): short runs of bytes >= 0x80 (truncated / stray UTF-8 sequences) after a few prefixes
	c03HighBytes = []string{"\x80", "\xa6", "\xbf", "\xc3", "\xe2", "\xef", "\xf0", "\xff"}
	c03Prefixes  = []string{"", "X", "X ", "-a", "[X]", "X.", "--aa"}
	c03Lexemes = []string{"[", "]", "(", ")", "|", "...", "-a", "-z", "--aa", "-ab", "OPTIONS", "X", "Q", "--", "=<v>"}
	c03Argvs   = [][]string{{}, {"x"}, {"-a"}, {"--"}, {"x", "x"}, {"-ab", "x"}, {""}, {"-o", ""}, {"--out", "", "x"}}
)

var envSubsets = []map[string]string{{}, {"a": "true"}, {"o": "ev"}, {"a": "true", "o": "ev"}}

func strSeqs(alpha []string, n int, f func(parts []string)) {
	idx := make([]int, n)
	parts := make([]string, n)
	for {
		for i := range idx {
			parts[i] = alpha[idx[i]]
		}
		f(parts)
		k := n - 1
		for k >= 0 {
			idx[k]++
			if idx[k] < len(alpha) {
				break
			}
			idx[k] = 0
			k--
		}
		if k < 0 {
			return
		}
	}
}

func runTerm(c *Ctx) {
	d := ref.Std()
	i := 0
	// (i) all strings over the class representatives
	maxLen, alpha := 5, c03Bytes
	doStr := func(spec string) {
		i++
		if !c.Mine(i) {
			return
		}
		if !c.Begin("spec="+spec, "argv=", "env=") {
			return
		}
		c.Count("strings", 1)
		compiled := termCase(c, d, spec, nil, nil, "bytes")
		if compiled {
			for _, av := range c03Argvs[1:] {
				termCase(c, d, spec, av, nil, "bytes")
			}
			termCase(c, d, spec, []string{"x"}, envSubsets[3], "bytes")
		}
	}
	doStr("")
	for n := 1; n <= maxLen; n++ {
		strSeqs(alpha, n, func(p []string) { doStr(strings.Join(p, "")) })
	}
	c.Note("space (i)", fmt.Sprintf("all strings of length <= %d over %d class representatives %q", maxLen, len(alpha), alpha))
	if c.Thorough() {
		strSeqs(c03BytesSm, 6, func(p []string) { doStr(strings.Join(p, "")) })
		strSeqs(c03BytesSm, 7, func(p []string) { doStr(strings.Join(p, "")) })
		c.Note("space (i) deep", fmt.Sprintf("all strings of length 6 and 7 over %q", c03BytesSm))
	}
	// (ii) lexeme sequences, joined three ways
	maxLex := 5
	if c.Thorough() {
		maxLex = 6
	}
	for n := 1; n <= maxLex; n++ {
		strSeqs(c03Lexemes, n, func(p []string) {
			for _, sep := range []string{"", " ", "\t"} {
				if n == 1 && sep != "" {
					continue
				}
				doStr(strings.Join(p, sep))
			}
		})
	}
	c.Note("space (ii)", fmt.Sprintf("all sequences of <= %d lexemes over %q, joined by nothing, a space, a tab", maxLex, c03Lexemes))
	for _, pre := range c03Prefixes {
		for n := 1; n <= 3; n++ {
			strSeqs(c03HighBytes, n, func(p []string) { doStr(pre + strings.Join(p, "")) })
		}
	}
	c.Note("space (iv)", fmt.Sprintf("prefixes %q followed by every string of length <= 3 over the bytes %q", c03Prefixes, c03HighBytes))
	for n := 1; n <= 4; n++ {
		strSeqs(c08Blanks, n, func(p []string) { doStr(strings.Join(p, "")) })
	}
	c.Note("space (vi)", fmt.Sprintf("all strings of <= 4 symbols over the blanks and their look-alikes %q", c08Blanks))
	// (iii) grammar-derived specs x argvs x every subset of env-backed options
	type t3 struct {
		leaves []string
		size   int
		toks   []string
		alen   int
	}
	tokTinyE := append(append([]string{}, tokTiny...), "", "-o")
	tiers := []t3{{leavesFull, 3, tokTinyE, 3}, {leavesMid, 4, tokTiny, 1}, {leavesNest, 5, []string{"x", "-a"}, 2}}
	if c.Thorough() {
		tiers = []t3{{leavesFull, 4, tokTinyE, 3}, {leavesTiny, 5, tokTiny, 3}, {leavesMid, 5, tokTiny, 1}, {leavesNest, 6, []string{"x", "-a"}, 2}}
	}
	for _, t := range tiers {
		g := ref.NewSpecGen(t.leaves)
		argvs := ref.Argvs(t.toks, t.alen)
		ns := 0
		for n := 1; n <= t.size; n++ {
			for _, spec := range g.Specs(n) {
				ns++
				i++
				if !c.Mine(i) {
					continue
				}
				if !c.Begin("spec="+spec, "argv=", "env=") {
					continue
				}
				c.Count("grammar_specs", 1)
				for _, env := range envSubsets {
					for _, av := range argvs {
						termCase(c, d, spec, av, env, "grammar")
					}
				}
			}
		}
		c.Note(fmt.Sprintf("space (iii) size<=%d", t.size), fmt.Sprintf("%d grammar-derived specs over %d leaves x %d argvs (length<=%d over %q) x 4 subsets of {a,o} backed by a set environment variable", ns, len(t.leaves), len(argvs), t.alen, t.toks))
	}
	// (v) operator towers: stacks of optional / repetition operators around a two-leaf sequence or choice
	{
		depth := 2
		if c.Thorough() {
			depth = 3
		}
		specs := towerSpecs(towerPairs, depth)
		argvs := [][]string{{}, {"x"}, {"x", "x"}, {"-a"}, {"-a", "x"}, {"x", "-a", "x"}, {"-b", "-a"}, {"--", "x"}, {"x", "x", "x"}}
		for _, spec := range specs {
			i++
			if !c.Mine(i) {
				continue
			}
			if !c.Begin("spec="+spec, "argv=", "env=") {
				continue
			}
			c.Count("tower_specs", 1)
			for _, env := range envSubsets {
				for _, av := range argvs {
					termCase(c, d, spec, av, env, "towers")
				}
			}
		}
		c.Note("space (v)", fmt.Sprintf("%d operator towers W3(W1(a) op W2(b)): leaf pairs %q, op in {juxtaposition, |}, W any stack of <= %d of { [s], (s)..., [s]... }, x %d argvs x 4 environment subsets", len(specs), towerPairs, depth, len(argvs)))

	}
}

func replayTermCrash(c *Ctx, parts []string) {
	var spec string
	var argv []string
	env := map[string]string{}
	for _, p := range parts {
		switch {
		case strings.HasPrefix(p, "spec="):
			spec = p[5:]
		case strings.HasPrefix(p, "argv=") && len(p) > 5:
			argv = strings.Split(p[5:], "\x1e")
		case strings.HasPrefix(p, "env=") && len(p) > 4:
			for _, kv := range strings.Split(p[4:], ",") {
				if i := strings.IndexByte(kv, '='); i > 0 {
					env[kv[:i]] = kv[i+1:]
				}
			}
		}
	}
	termCase(c, ref.Std(), spec, argv, env, "replay")
}

func replayTerm(c *Ctx, cs Case) {
	termCase(c, ref.Std(), cStr(cs, "spec"), cStrs(cs, "argv"), cMap(cs, "env"), "replay")
}

func envText(env map[string]string) string {
	if len(env) == 0 {
		return ""
	}
	var p []string
	for _, k := range []string{"a", "b", "o"} {
		if v, ok := env[k]; ok {
			p = append(p, k+"="+v)
		}
	}
	return strings.Join(p, ",")
}

// termCase runs one case and judges its outcome class; returns whether the spec compiled.
func termCase(c *Ctx, d *ref.Decl, spec string, argv []string, env map[string]string, space string) bool {
	c.Mark("spec="+spec, "argv="+strings.Join(argv, "\x1e"), "env="+envText(env))
	obs := runLang(d, spec, argv, langOpts{env: env})
	c.Count("evaluations", 1)
	key := fmt.Sprintf("spec=%q argv=%q env=%s", spec, argv, envText(env))
	bad := ""
	switch {
	case obs.SpecError:
		c.Count("outcome_spec_error", 1)
		if obs.SpecPos > 0 {
			c.Count("nontrivial", 1)
		}
		if obs.SpecPos < 0 || obs.SpecPos > len(spec) {
			bad = fmt.Sprintf("spec error position %d outside [0,%d]", obs.SpecPos, len(spec))
		} else if strings.HasPrefix(obs.SpecMsg, "Error() panicked") {
			bad = obs.SpecMsg
		}
		if obs.ActionRuns != 0 {
			bad = "Action ran although the spec was rejected"
		}
	case obs.Panic != "":
		bad = "Run panicked with a value that is not a spec error: " + obs.Panic
	case len(obs.Exits) > 0:
		bad = fmt.Sprintf("process exit %v under ContinueOnError", obs.Exits)
	case obs.Err == "" && obs.ActionRuns == 1:
		c.Count("outcome_accepted", 1)
		c.Count("nontrivial", 1)
	case obs.Err != "" && obs.ActionRuns == 0:
		c.Count("outcome_usage_error", 1)
		c.Count("nontrivial", 1)
	default:
		bad = "undocumented outcome: " + obs.Summary()
	}
	if bad != "" && c.On("C03") {
		c.Violation("C03", key, Case{"spec": spec, "spec_hex": hx(spec), "argv": argv, "env": env}, "spec error with a position inside the string, acceptance, or a usage error", bad)
	}
	if c.WantSample(space) && (len(argv) > 0 || obs.SpecError) && len(spec) >= 3 {
		c.Sample(space, Case{"spec": spec, "argv": argv, "env": envText(env), "outcome": obs.Summary()})
	}
	return !obs.SpecError && obs.Panic == ""
}
