//go:build verif

package main

import "strings"

// towerSpecs: the "operator tower" family, aimed at shortcut elimination and loop handling in the compiled automaton:
//
//	W3( W1(a) op W2(b) )   with a,b leaves, op in {juxtaposition, |}, and W1,W2,W3 any stack of at most `depth`
//	unary operators out of { [s] , (s)... , [s]... }
//
// Every member is well-formed; members whose repetition operand is `--` are skipped (not repeatable usefully, and
// options after `--` are spec errors).
func towerSpecs(pairs [][2]string, depth int) []string {
	type w func(s string, leaf bool) string
	ops := []w{
		func(s string, leaf bool) string { return "[" + s + "]" },
		func(s string, leaf bool) string {
			if leaf {
				return s + "..."
			}
			return "(" + s + ")..."
		},
		func(s string, leaf bool) string { return "[" + s + "]..." },
	}
	var stacks [][]int
	var rec func(cur []int)
	rec = func(cur []int) {
		stacks = append(stacks, append([]int(nil), cur...))
		if len(cur) == depth {
			return
		}
		for i := range ops {
			rec(append(cur, i))
		}
	}
	rec(nil)
	apply := func(s string, leaf bool, st []int) string {
		for _, o := range st {
			s = ops[o](s, leaf)
			leaf = false
		}
		return s
	}
	seen := map[string]bool{}
	var out []string
	for _, p := range pairs {
		for _, s1 := range stacks {
			for _, s2 := range stacks {
				a, b := apply(p[0], true, s1), apply(p[1], true, s2)
				for _, op := range []string{" ", " | "} {
					inner := a + op + b
					for _, s3 := range stacks {
						var spec string
						if len(s3) == 0 {
							spec = inner
						} else {
							spec = apply(inner, false, s3)
						}
						// the spec-level `--` token must be followed by a blank or the end of the string
						spec = strings.NewReplacer("--]", "-- ]", "--)", "-- )").Replace(spec)
						if strings.Contains(spec, "--...") || seen[spec] {
							continue
						}
						seen[spec] = true
						out = append(out, spec)
					}
				}
			}
		}
	}
	return out
}

var towerPairs = [][2]string{{"X", "Y"}, {"X", "X"}, {"-a", "X"}, {"X", "-a"}, {"-a", "-b"}, {"-a", "-a"}, {"X", "--"}}
