//go:build verif

package main

import "github.com/jawher/mow.cli/internal/zverif/ref"

// enumerating a large size class of specs takes seconds: the generator reports liveness to the watchdog
func setTick(c *Ctx) { ref.Tick = c.Beat }
