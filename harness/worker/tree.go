//go:build verif

package main

import (
	"flag"
	"fmt"
	"strconv"
	"strings"

	cli "github.com/jawher/mow.cli"
	"github.com/jawher/mow.cli/internal/zverif/ref"
)

// Shared machinery of the command-tree checks (C04 routing, C07 error policy, C14 help/version).

type tnode struct {
	aliases []string
	kids    []*tnode
	slot    int
	parent  *tnode
}

func (n *tnode) path() string {
	if n.parent == nil {
		return n.aliases[0]
	}
	return n.parent.path() + " " + n.aliases[0]
}

func (n *tnode) kid(alias string) *tnode {
	for _, k := range n.kids {
		for _, a := range k.aliases {
			if a == alias {
				return k
			}
		}
	}
	return nil
}

func mkTree(aliases string, kids ...*tnode) *tnode {
	n := &tnode{aliases: strings.Fields(aliases), kids: kids}
	for _, k := range kids {
		k.parent = n
	}
	return n
}

func numberSlots(root *tnode) []*tnode {
	var all []*tnode
	var walk func(n *tnode)
	walk = func(n *tnode) {
		n.slot = len(all)
		all = append(all, n)
		for _, k := range n.kids {
			walk(k)
		}
	}
	walk(root)
	return all
}

// Per-level declaration/spec pairs.
type lvlKind struct {
	spec string
	decl *ref.Decl
	ints map[string]bool // containers holding an int
	single []string      // single-valued containers (hold the last value given)
	node *ref.Node
	// argument vectors to try at a level of this kind (valid and invalid ones)
	argvs [][]string
}

func fl(key string) ref.OptDecl {
	return ref.OptDecl{Key: key, Names: []string{"-" + key, "--" + key + key}, Flag: true}
}
func vo(key string) ref.OptDecl {
	return ref.OptDecl{Key: key, Names: []string{"-" + key, "--" + key + key}, Flag: false}
}

var lvlKinds map[int]*lvlKind

func init() {
	mk := func(spec string, d *ref.Decl, ints ...string) *lvlKind {
		k := &lvlKind{spec: spec, decl: d, ints: map[string]bool{}}
		for _, i := range ints {
			k.ints[i] = true
		}
		n, err := ref.ParseSpec(d, spec)
		if err != nil {
			panic(err)
		}
		k.node = n
		for _, o := range d.Opts {
			if !o.Flag {
				k.single = append(k.single, o.Key)
			}
		}
		for _, a := range d.Args {
			if k.ints[a] {
				k.single = append(k.single, a)
			}
		}
		return k
	}
	lvlKinds = map[int]*lvlKind{
		0: mk("", &ref.Decl{}),
		1: mk("[-f]", &ref.Decl{Opts: []ref.OptDecl{fl("f")}}),
		2: mk("X", &ref.Decl{Args: []string{"X"}}),
		3: mk("[-f] X", &ref.Decl{Opts: []ref.OptDecl{fl("f")}, Args: []string{"X"}}),
		4: mk("[X]", &ref.Decl{Args: []string{"X"}}),
		5: mk("-f X...", &ref.Decl{Opts: []ref.OptDecl{fl("f")}, Args: []string{"X"}}),
		6: mk("[-i...] [-o]", &ref.Decl{Opts: []ref.OptDecl{vo("i"), vo("o")}}, "i"),
		7: mk("N", &ref.Decl{Args: []string{"N"}}, "N"),
		8: mk("[-f] [-- X...]", &ref.Decl{Opts: []ref.OptDecl{fl("f")}, Args: []string{"X"}}),
		// a command that itself declares an option named h / help (help requests still win)
		12: mk("[-f] [-o]", &ref.Decl{Opts: []ref.OptDecl{fl("f"), vo("o")}}),
		// a sub-command option spelled like the application's version flag (only below a root that declares Version)
		13: mk("[-v] [X]", &ref.Decl{Opts: []ref.OptDecl{{Key: "v", Names: []string{"-v", "--version"}, Flag: true}}, Args: []string{"X"}}),
		// a level whose spec REQUIRES an option and declares no positional: addressing a sub-command without giving the
		// level its option is a usage error of that level
		14: mk("-f", &ref.Decl{Opts: []ref.OptDecl{fl("f")}}),
		9: mk("[-h] [X]", &ref.Decl{Opts: []ref.OptDecl{{Key: "h", Names: []string{"-h", "--help"}, Flag: true}}, Args: []string{"X"}}),
	}
}

// treeVersionText is printed verbatim by a version request: per cent signs and verbs in it are text
const treeVersionText = "9.9.9-verif (100% pure, %s %d%%)"

// treeRun holds what one invocation shows.
type treeRun struct {
	calls   []string // "B:<path>", "A:<path>", "F:<path>"
	vals    map[*tnode]func() string
	initSaw map[*tnode]string // what a command's initializer saw in its parent's variables
}

type treeOpts struct {
	kinds    []int // per slot
	pols     []int // per slot: -1 inherit, else index into flowPolicies
	rootPol  int
	hooks    bool
	version  bool
	noAction map[int]bool
}

// buildTree declares the application for one tree shape.
func buildTree(root *tnode, to treeOpts) (*cli.Cli, *treeRun) {
	tr := &treeRun{vals: map[*tnode]func() string{}, initSaw: map[*tnode]string{}}
	app := cli.App(root.aliases[0], "short "+root.aliases[0])
	app.ErrorHandling = flowPolicies[to.rootPol]
	if to.version {
		app.Version("v version", treeVersionText)
	}
	var setup func(n *tnode, cmd *cli.Cmd)
	setup = func(n *tnode, cmd *cli.Cmd) {
		if n.parent != nil {
			tr.initSaw[n] = tr.vals[n.parent]()
		}
		k := lvlKinds[to.kinds[n.slot]]
		cmd.Spec = k.spec
		cmd.LongDesc = "LONG description of " + n.path()
		if to.pols != nil && to.pols[n.slot] >= 0 {
			cmd.ErrorHandling = flowPolicies[to.pols[n.slot]]
		}
		var readers []func() string
		for _, o := range k.decl.Opts {
			o := o
			var nn []string
			for _, x := range o.Names {
				nn = append(nn, strings.TrimLeft(x, "-"))
			}
			name := strings.Join(nn, " ")
			switch {
			case o.Flag:
				p := cmd.BoolOpt(name, false, "")
				readers = append(readers, func() string {
					if *p {
						return o.Key + "=[true] "
					}
					return ""
				})
			case k.ints[o.Key]:
				p := cmd.Int(cli.IntOpt{Name: name, Value: -1})
				readers = append(readers, func() string {
					if *p != -1 {
						return fmt.Sprintf("%s=[%d] ", o.Key, *p)
					}
					return ""
				})
			default:
				p := cmd.String(cli.StringOpt{Name: name})
				readers = append(readers, func() string {
					if *p != "" {
						return fmt.Sprintf("%s=[%s] ", o.Key, *p)
					}
					return ""
				})
			}
		}
		for _, a := range k.decl.Args {
			a := a
			if k.ints[a] {
				p := cmd.Int(cli.IntArg{Name: a, Value: -1})
				readers = append(readers, func() string {
					if *p != -1 {
						return fmt.Sprintf("%s=[%d] ", a, *p)
					}
					return ""
				})
			} else {
				p := cmd.StringsArg(a, nil, "")
				readers = append(readers, func() string {
					if len(*p) > 0 {
						return fmt.Sprintf("%s=[%s] ", a, strings.Join(*p, ","))
					}
					return ""
				})
			}
		}
		tr.vals[n] = func() string {
			s := ""
			for _, r := range readers {
				s += r()
			}
			return s
		}
		path := n.path()
		if to.hooks {
			cmd.Before = func() { tr.calls = append(tr.calls, "B:"+path) }
			cmd.After = func() { tr.calls = append(tr.calls, "F:"+path) }
		}
		if !to.noAction[n.slot] {
			cmd.Action = func() { tr.calls = append(tr.calls, "A:"+path) }
		}
		for _, kid := range n.kids {
			kid := kid
			cmd.Command(strings.Join(kid.aliases, " "), "short "+kid.aliases[0], func(sub *cli.Cmd) { setup(kid, sub) })
		}
	}
	setup(root, app.Cmd)
	return app, tr
}

// ---- reference router (15 lines of logic): split at the first token naming a direct child, validate the
// prefix against that level's spec with the reference matcher, recurse.

type routeResult struct {
	target    *tnode // addressed command (nil when rejected)
	rejectAt  *tnode // first rejecting level, root to leaf
	levels    []*tnode
	binds     [][]string // per visited level: acceptable binding texts
	unclaimed bool
}

func route(root *tnode, kinds []int, args []string) routeResult {
	var r routeResult
	cur, rest := root, args
	for {
		split := len(rest)
		for i, t := range rest {
			if cur.kid(t) != nil {
				split = i
				break
			}
		}
		own := rest[:split]
		k := lvlKinds[kinds[cur.slot]]
		ev := ref.Eval{D: k.decl, Argv: own}
		v := ev.Run(k.node)
		if v.Unclaimed {
			r.unclaimed = true
			return r
		}
		r.levels = append(r.levels, cur)
		ok := v.Accept
		var binds []string
		if ok {
			// conversion to the declared type
			for _, b := range v.Binds {
				if convertible(k, b) {
					binds = append(binds, b)
				}
			}
			ok = len(binds) > 0
		}
		if !ok {
			r.rejectAt = cur
			return r
		}
		r.binds = append(r.binds, binds)
		if split == len(rest) {
			r.target = cur
			return r
		}
		cur = cur.kid(rest[split])
		rest = rest[split+1:]
	}
}

// convertible: every value bound to an int container parses as a base-10 64-bit integer.
func convertible(k *lvlKind, bindText string) bool {
	for name := range k.ints {
		i := strings.Index(bindText, name+"=[")
		if i < 0 {
			continue
		}
		vals := bindText[i+len(name)+2:]
		vals = vals[:strings.Index(vals, "]")]
		for _, v := range strings.Split(vals, ",") {
			if _, err := strconv.ParseInt(v, 10, 64); err != nil {
				return false
			}
		}
	}
	return true
}

// normaliseSingle rewrites the reference bindings of single-valued containers (int and string
// options / int arguments hold the last value; ints print canonically): i=[05,7] -> i=[7].
func normaliseSingle(k *lvlKind, bindText string) string {
	for _, name := range k.single {
		i := strings.Index(bindText, name+"=[")
		if i < 0 {
			continue
		}
		j := i + len(name) + 2
		e := j + strings.Index(bindText[j:], "]")
		vals := strings.Split(bindText[j:e], ",")
		last := vals[len(vals)-1]
		if k.ints[name] {
			if n, err := strconv.ParseInt(last, 10, 64); err == nil {
				last = strconv.FormatInt(n, 10)
			}
		}
		bindText = bindText[:j] + last + bindText[e:]
	}
	return bindText
}

func usageLine(n *tnode, kinds []int) string {
	l := "Usage: " + n.path()
	if s := strings.TrimSpace(lvlKinds[kinds[n.slot]].spec); s != "" {
		l += " " + s
	}
	if len(n.kids) > 0 {
		l += " COMMAND [arg...]"
	}
	return l
}

// hasUsageOf: the text contains a usage line of exactly this command ("Usage: <full path>" followed by
// the end of the line or a blank, and not continuing with the name of one of its sub-commands).
func hasUsageOf(text string, n *tnode) bool {
	want := "Usage: " + n.path()
	for _, l := range strings.Split(text, "\n") {
		l = strings.TrimSpace(l)
		if !strings.HasPrefix(l, want) {
			continue
		}
		rest := l[len(want):]
		if rest != "" && rest[0] != ' ' {
			continue
		}
		deeper := false
		f := strings.Fields(rest)
		if len(f) > 0 && n.kid(f[0]) != nil {
			deeper = true
		}
		if !deeper {
			return true
		}
	}
	return false
}

func hasLine(text, line string) bool {
	for _, l := range strings.Split(text, "\n") {
		if l == line {
			return true
		}
	}
	return false
}

// Tree shapes.
func treeShapes(thorough bool) []*tnode {
	s := []*tnode{
		mkTree("app", mkTree("c1 k1", mkTree("d1 e1")), mkTree("c2")),
		mkTree("app", mkTree("c1", mkTree("x d1"), mkTree("d2")), mkTree("c2 k2")),
	}
	if thorough {
		s = append(s, mkTree("app", mkTree("c1 k1", mkTree("d1", mkTree("e1 f1")), mkTree("d2")), mkTree("c2")))
	}
	return s
}

// enumPaths calls f for every target node with every alias combination along its path.
func enumPaths(root *tnode, f func(target *tnode, names []string)) {
	var walk func(n *tnode, names []string)
	walk = func(n *tnode, names []string) {
		f(n, names)
		for _, k := range n.kids {
			for _, a := range k.aliases {
				walk(k, append(append([]string{}, names...), a))
			}
		}
	}
	walk(root, nil)
}

func pathNodes(target *tnode) []*tnode {
	var p []*tnode
	for n := target; n != nil; n = n.parent {
		p = append([]*tnode{n}, p...)
	}
	return p
}

// levelArgvs: the argument vectors usable at a level (tokens naming a direct child are excluded by the quantifier).
func levelArgvs(n *tnode, universe [][]string) [][]string {
	var out [][]string
	for _, av := range universe {
		ok := true
		for _, t := range av {
			if n.kid(t) != nil {
				ok = false
			}
		}
		if ok {
			out = append(out, av)
		}
	}
	return out
}

// product of per-level argvs along a path, interleaved with the names.
func enumInvocations(path []*tnode, names []string, per [][][]string, f func(args []string, own [][]string)) {
	own := make([][]string, len(path))
	var rec func(i int, args []string)
	rec = func(i int, args []string) {
		if i == len(path) {
			f(args, own)
			return
		}
		for _, av := range per[i] {
			own[i] = av
			a := append(append([]string{}, args...), av...)
			if i+1 < len(path) {
				a = append(a, names[i])
			}
			rec(i+1, a)
		}
	}
	rec(0, nil)
}

var _ = flag.ContinueOnError
