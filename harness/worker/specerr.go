//go:build verif

package main

import (
	"fmt"
	"reflect"
)

// specErr recognises the positioned error a rejected spec is reported with, by shape rather than by type
// (an error whose dynamic value is a pointer to a struct with an int field Pos and string fields Input and
// Msg), so that the harness does not depend on the internal package that declares it.
type specErr struct {
	Pos int
	Msg string
	err error
}

func asSpecErr(v interface{}) *specErr {
	e, ok := v.(error)
	if !ok || v == nil {
		return nil
	}
	rv := reflect.ValueOf(v)
	if rv.Kind() != reflect.Ptr || rv.IsNil() || rv.Elem().Kind() != reflect.Struct {
		return nil
	}
	s := rv.Elem()
	pos, in, msg := s.FieldByName("Pos"), s.FieldByName("Input"), s.FieldByName("Msg")
	if !pos.IsValid() || pos.Kind() != reflect.Int || !in.IsValid() || in.Kind() != reflect.String {
		return nil
	}
	se := &specErr{Pos: int(pos.Int()), err: e}
	if msg.IsValid() && msg.Kind() == reflect.String {
		se.Msg = msg.String()
	}
	return se
}

// Text renders the error (its Error method may itself misbehave on a bad position).
func (s *specErr) Text() (txt string) {
	defer func() {
		if r := recover(); r != nil {
			txt = fmt.Sprint("Error() panicked: ", r)
		}
	}()
	return s.err.Error()
}
