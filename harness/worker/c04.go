//go:build verif

package main

import (
	"fmt"
	"strings"

	cli "github.com/jawher/mow.cli"
)

// C04: sub-command routing runs exactly the addressed command with its own bindings.

func init() {
	register(&CheckDef{Name: "route", Props: []string{"C04"}, Run: runRoute, Replay: replayRoute})
}

var routeUniverse = [][]string{{}, {"-f"}, {"x"}, {"-f", "x"}, {"x", "y"}, {"-z"}, {"--"}, {"--", "x"}, {"-f", "--", "-f"}, {"-"}, {"-fo", "v"}}

func kindAssignments(nslots int, kinds []int, f func(assign []int)) {
	a := make([]int, nslots)
	var rec func(i int)
	rec = func(i int) {
		if i == nslots {
			f(a)
			return
		}
		for _, k := range kinds {
			a[i] = k
			rec(i + 1)
		}
	}
	rec(0)
}

func runRoute(c *Ctx) {
	idx := 0
	kinds := []int{0, 1, 2, 3, 4, 5, 8, 12}
	for si, shape := range treeShapes(c.Thorough()) {
		slots := numberSlots(shape)
		ks := kinds
		if !c.Thorough() {
			ks = [][]int{{0, 1, 3, 5, 8, 12}, {0, 2, 4, 8, 12}}[si%2]
		}
		if len(slots) > 4 {
			ks = []int{0, 3, 8, 12} // deeper tree: fewer kinds per level
		}
		ntrees := 0
		kindAssignments(len(slots), ks, func(assign []int) {
			ntrees++
			idx++
			if !c.Mine(idx) {
				return
			}
			if !c.Begin("route", fmt.Sprint(si), fmt.Sprint(assign)) {
				return
			}
			as := append([]int{}, assign...)
			enumPaths(shape, func(target *tnode, names []string) {
				path := pathNodes(target)
				per := make([][][]string, len(path))
				for i, n := range path {
					per[i] = levelArgvs(n, routeUniverse)
				}
				enumInvocations(path, names, per, func(args []string, own [][]string) {
					c.Beat()
					routeCase(c, si, shape, as, args)
				})
			})
		})
		if c.Shard == 0 {
			c.Note(fmt.Sprintf("shape %d", si), fmt.Sprintf("%s: %d spec assignments over kinds %v; every target x every alias combination x per-level argvs %v", shapeText(shape), ntrees, ks, routeUniverse))
		}
	}
}

func shapeText(n *tnode) string {
	s := strings.Join(n.aliases, "|")
	if len(n.kids) > 0 {
		var ks []string
		for _, k := range n.kids {
			ks = append(ks, shapeText(k))
		}
		s += "{" + strings.Join(ks, ", ") + "}"
	}
	return s
}

func replayRoute(c *Ctx, cs Case) {
	shape := treeShapes(true)[cInt(cs, "shape")]
	numberSlots(shape)
	var assign []int
	for _, x := range cs["kinds"].([]interface{}) {
		assign = append(assign, int(x.(float64)))
	}
	routeCase(c, cInt(cs, "shape"), shape, assign, cStrs(cs, "args"))
}

func routeCase(c *Ctx, si int, shape *tnode, assign []int, args []string) {
	app, tr := buildTree(shape, treeOpts{kinds: assign, rootPol: 0})
	o := runIsolated(func() error { return app.Run(append([]string{"app"}, args...)) })
	r := route(shape, assign, args)
	c.Count("evaluations", 1)
	if r.unclaimed {
		c.Count("unclaimed", 1)
		return
	}
	if len(r.levels) > 1 {
		c.Count("nontrivial", 1)
	}
	key := fmt.Sprintf("tree=%s specs=%s args=%q", shapeText(shape), specsText(shape, assign), args)
	cs := func() Case { return Case{"shape": si, "kinds": assign, "args": args} }
	obs := fmt.Sprintf("calls=%v returned=%v err=%v panicked=%v exits=%v", tr.calls, o.Returned, o.Err, o.Panicked, o.Exits)
	if o.Panicked || len(o.Exits) > 0 {
		c.Violation("C04", key, cs(), "Run returns under ContinueOnError", obs+" panic="+safeSprint(o.PanicVal))
		return
	}
	if r.target == nil {
		c.Count("expected_rejections", 1)
		if len(tr.calls) != 0 || o.Err == nil {
			c.Violation("C04", key, cs(), "usage error at "+r.rejectAt.path()+", nothing runs", obs)
		}
		return
	}
	want := "A:" + r.target.path()
	if len(tr.calls) != 1 || tr.calls[0] != want || o.Err != nil {
		c.Violation("C04", key, cs(), "exactly "+want+" runs, once; Run returns nil", obs)
		return
	}
	for i, n := range r.levels {
		// a sub-command is initialised lazily, after its parent's own tokens were bound: its initializer sees them
		if i > 0 {
			ok := false
			for _, b := range r.binds[i-1] {
				if normaliseSingle(lvlKinds[assign[r.levels[i-1].slot]], b) == tr.initSaw[n] {
					ok = true
				}
			}
			if !ok {
				c.Violation("C04", key+" (lazy initialisation)", cs(), fmt.Sprintf("the initializer of %s runs after %s was bound and sees %s", n.path(), r.levels[i-1].path(), strings.Join(r.binds[i-1], " / ")), "it saw "+tr.initSaw[n])
				return
			}
		}
		got := tr.vals[n]()
		k := lvlKinds[assign[n.slot]]
		ok := false
		for _, b := range r.binds[i] {
			if normaliseSingle(k, b) == got {
				ok = true
			}
		}
		if !ok {
			c.Violation("C04", key, cs(), fmt.Sprintf("level %s holds its own tokens: %s", n.path(), strings.Join(r.binds[i], " / ")), "holds "+got)
			return
		}
	}
	// the tree may grow between two runs of the same instance: a command declared on the root after a first
	// (root-level) run must be seen by the next run
	if r.target == shape && shape.kid("late") == nil {
		lateRan, lateX := 0, ""
		app.Command("late lt", "declared after the first run", func(sub *cli.Cmd) {
			x := sub.StringArg("X", "", "")
			sub.Action = func() { lateRan++; lateX = *x }
		})
		tr.calls = nil
		args2 := append(append([]string{}, args...), "lt", "val")
		o2 := runIsolated(func() error { return app.Run(append([]string{"app"}, args2...)) })
		c.Count("second_runs_with_late_command", 1)
		if !(o2.Returned && o2.Err == nil && lateRan == 1 && lateX == "val" && len(tr.calls) == 0) {
			c.Violation("C04", key+" then Command(\"late lt\") and a second Run with "+fmt.Sprintf("%q", args2), cs(), "the command declared after the first run is addressed: its Action runs once with X=val, no other Action", fmt.Sprintf("late ran %d times X=%q other calls=%v err=%v panicked=%v", lateRan, lateX, tr.calls, o2.Err, o2.Panicked))
		}
	}
	if c.WantSample(fmt.Sprintf("depth%d", len(r.levels)-1)) && len(args) >= 3 {
		c.Sample(fmt.Sprintf("depth%d", len(r.levels)-1), Case{"tree": shapeText(shape), "specs": specsText(shape, assign), "args": args, "ran": tr.calls})
	}
}

func specsText(shape *tnode, assign []int) string {
	var p []string
	for _, n := range numberSlots(shape) {
		p = append(p, fmt.Sprintf("%s:%q", n.aliases[0], lvlKinds[assign[n.slot]].spec))
	}
	return strings.Join(p, " ")
}
