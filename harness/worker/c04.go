//go:build verif

package main

import (
	"fmt"
	"strings"

	cli "github.com/jawher/mow.cli"
)

// C04: sub-command routing runs exactly the addressed command with its own bindings.

func init() {
	register(&CheckDef{Name: "route", Props: []string{"C04"}, Run: runRoute, Replay: replayRoute})
}

var routeUniverse = [][]string{{}, {"-f"}, {"x"}, {"-f", "x"}, {"x", "y"}, {"-z"}, {"--"}, {"--", "x"}, {"-f", "--", "-f"}, {"-"}, {"-fo", "v"}}

func kindAssignments(nslots int, kinds []int, f func(assign []int)) {
	a := make([]int, nslots)
	var rec func(i int)
	rec = func(i int) {
		if i == nslots {
			f(a)
			return
		}
		for _, k := range kinds {
			a[i] = k
			rec(i + 1)
		}
	}
	rec(0)
}

func runRoute(c *Ctx) {
	idx := 0
	kinds := []int{0, 1, 2, 3, 4, 5, 8, 12}
	for si, shape := range treeShapes(c.Thorough()) {
		slots := numberSlots(shape)
		ks := kinds
		if !c.Thorough() {
			ks = [][]int{{0, 1, 3, 5, 8, 12}, {0, 2, 4, 8, 12}}[si%2]
		}
		if len(slots) > 4 {
			ks = []int{0, 3, 8, 12} // deeper tree: fewer kinds per level
		}
		ntrees := 0
		kindAssignments(len(slots), ks, func(assign []int) {
			ntrees++
			idx++
			if !c.Mine(idx) {
				return
			}
			if !c.Begin("route", fmt.Sprint(si), fmt.Sprint(assign)) {
				return
			}
			as := append([]int{}, assign...)
			enumPaths(shape, func(target *tnode, names []string) {
				path := pathNodes(target)
				per := make([][][]string, len(path))
				for i, n := range path {
					per[i] = levelArgvs(n, routeUniverse)
				}
				enumInvocations(path, names, per, func(args []string, own [][]string) {
					c.Beat()
					routeCase(c, si, shape, as, args)
				})
			})
		})
		if c.Shard == 0 {
			c.Note(fmt.Sprintf("shape %d", si), fmt.Sprintf("%s: %d spec assignments over kinds %v; every target x every alias combination x per-level argvs %v", shapeText(shape), ntrees, ks, routeUniverse))
		}
	}
	// levels that require an option and have no positional (kind 14), mixed with empty levels
	for si, shape := range treeShapes(c.Thorough()) {
		slots := numberSlots(shape)
		ks := []int{0, 14}
		if len(slots) <= 4 {
			ks = []int{0, 3, 14}
		}
		ntrees := 0
		kindAssignments(len(slots), ks, func(assign []int) {
			ntrees++
			idx++
			if !c.Mine(idx) || !c.Begin("route-required-option", fmt.Sprint(si), fmt.Sprint(assign)) {
				return
			}
			as := append([]int{}, assign...)
			enumPaths(shape, func(target *tnode, names []string) {
				path := pathNodes(target)
				per := make([][][]string, len(path))
				for i, n := range path {
					per[i] = levelArgvs(n, routeUniverse)
				}
				enumInvocations(path, names, per, func(args []string, own [][]string) {
					c.Beat()
					routeCase(c, si, shape, as, args)
				})
			})
		})
		if c.Shard == 0 {
			c.Note(fmt.Sprintf("shape %d, required option", si), fmt.Sprintf("%s: %d spec assignments over kinds %v (14 = spec `-f`: a required option and no positional); same targets, aliases and per-level argvs", shapeText(shape), ntrees, ks))
		}
	}
	versionedRoutes(c, &idx)
	if c.Shard == 0 && c.Begin("route-odd-names") {
		oddNames(c)
	}
}

// oddNames: command names and aliases are the blank-separated words of the declaration, byte for byte: a comma, a
// dot, an equals sign or a non-ASCII letter is part of the name; fragments of a name address nothing.
func oddNames(c *Ctx) {
	// "dd  ee" (two blanks) and "tt\tuu" (a tab) declare two names each: any run of blanks separates names
	decls := []string{"csv,tsv tab", "a.b", "x=y", "ünï u", "UP", "c1c", "c1", "dd  ee", "tt\tuu"}
	type probe struct {
		args []string
		want string // name list of the command whose Action must run, "" = usage error
	}
	var probes []probe
	for _, d := range decls {
		for _, alias := range strings.Fields(d) {
			probes = append(probes, probe{[]string{alias}, d}, probe{[]string{"grp", alias, "v"}, "grp/" + d})
		}
	}
	for _, frag := range []string{"csv", "tsv", "a", "b", "x", "y", "up", "c", "c1c1", "ün", "", " ", "tt\tuu", "dd  ee", "d", "uu\t"} {
		probes = append(probes, probe{[]string{frag}, ""}, probe{[]string{"grp", frag, "v"}, ""})
	}
	for _, p := range probes {
		var ran []string
		app := cli.App("app", "")
		app.ErrorHandling = flowPolicies[0]
		declare := func(cmd *cli.Cmd, prefix string, withArg bool) {
			for _, d := range decls {
				d := d
				cmd.Command(d, "", func(sub *cli.Cmd) {
					if withArg {
						sub.StringArg("X", "", "")
					}
					sub.Action = func() { ran = append(ran, prefix+d) }
				})
			}
		}
		declare(app.Cmd, "", false)
		app.Command("grp", "", func(g *cli.Cmd) { declare(g, "grp/", true) })
		o := runIsolated(func() error { return app.Run(append([]string{"app"}, p.args...)) })
		c.Count("evaluations", 1)
		c.Count("nontrivial", 1)
		c.Count("odd_name_cases", 1)
		key := fmt.Sprintf("commands declared as %q (at the root and below `grp`) args=%q", decls, p.args)
		cs := Case{"odd_names": true}
		if p.want == "" {
			if len(ran) != 0 || o.Err == nil || o.Panicked {
				c.Violation("C04", key, cs, "usage error, nothing runs (a fragment of a name is not a name)", fmt.Sprintf("ran=%q err=%v panicked=%v", ran, o.Err, o.Panicked))
			}
			continue
		}
		if len(ran) != 1 || ran[0] != p.want || o.Err != nil || o.Panicked {
			c.Violation("C04", key, cs, fmt.Sprintf("exactly the command declared as %q runs, once", p.want), fmt.Sprintf("ran=%q err=%v panicked=%v", ran, o.Err, o.Panicked))
		}
	}
	c.Note("odd names", fmt.Sprintf("%d invocations: every alias of %q at the root and one level down, and fragments of those names", len(probes), decls))
}

// versionedRoutes: the application declares Version("v version"); only a version flag given as the very first
// argument is a version request, so sub-commands may declare their own -v / --version and are routed as usual.
func versionedRoutes(c *Ctx, idx *int) {
	universe := [][]string{{}, {"-v"}, {"--version"}, {"x"}, {"-v", "x"}, {"x", "-v"}, {"-f"}, {"-f", "x"}, {"--version=true"}}
	nshapes := 0
	for si, shape := range treeShapes(c.Thorough()) {
		slots := numberSlots(shape)
		if len(slots) < 2 || len(slots) > 4 {
			continue
		}
		nshapes++
		kindAssignments(len(slots), []int{3, 13}, func(assign []int) {
			if assign[shape.slot] == 13 {
				return // the root's own v/version names are taken by the version flag
			}
			*idx++
			if !c.Mine(*idx) {
				return
			}
			if !c.Begin("route-versioned", fmt.Sprint(si), fmt.Sprint(assign)) {
				return
			}
			as := append([]int{}, assign...)
			enumPaths(shape, func(target *tnode, names []string) {
				path := pathNodes(target)
				per := make([][][]string, len(path))
				for i, n := range path {
					per[i] = nil
					for _, av := range levelArgvs(n, universe) {
						if i == 0 && len(av) > 0 && (strings.HasPrefix(av[0], "-v") || strings.HasPrefix(av[0], "--version")) {
							continue // a version request (C14), not routing
						}
						per[i] = append(per[i], av)
					}
				}
				enumInvocations(path, names, per, func(args []string, own [][]string) {
					c.Beat()
					routeCaseV(c, si, shape, as, args, true)
				})
			})
		})
	}
	if c.Shard == 0 {
		c.Note("versioned application", fmt.Sprintf("%d shapes with 2-4 commands, the root declaring Version(\"v version\"): levels %q or (below the root) %q whose flag is spelled -v/--version; per-level argvs %v, root-level ones not starting with the version flag", nshapes, lvlKinds[3].spec, lvlKinds[13].spec, universe))
	}
}

func shapeText(n *tnode) string {
	s := strings.Join(n.aliases, "|")
	if len(n.kids) > 0 {
		var ks []string
		for _, k := range n.kids {
			ks = append(ks, shapeText(k))
		}
		s += "{" + strings.Join(ks, ", ") + "}"
	}
	return s
}

func replayRoute(c *Ctx, cs Case) {
	if odd, _ := cs["odd_names"].(bool); odd {
		oddNames(c) // small: the whole enumeration
		return
	}
	shape := treeShapes(true)[cInt(cs, "shape")]
	numberSlots(shape)
	var assign []int
	for _, x := range cs["kinds"].([]interface{}) {
		assign = append(assign, int(x.(float64)))
	}
	ver, _ := cs["version_declared"].(bool)
	routeCaseV(c, cInt(cs, "shape"), shape, assign, cStrs(cs, "args"), ver)
}

func routeCase(c *Ctx, si int, shape *tnode, assign []int, args []string) {
	routeCaseV(c, si, shape, assign, args, false)
}

func routeCaseV(c *Ctx, si int, shape *tnode, assign []int, args []string, version bool) {
	app, tr := buildTree(shape, treeOpts{kinds: assign, rootPol: 0, version: version})
	o := runIsolated(func() error { return app.Run(append([]string{"app"}, args...)) })
	r := route(shape, assign, args)
	c.Count("evaluations", 1)
	if r.unclaimed {
		c.Count("unclaimed", 1)
		return
	}
	if len(r.levels) > 1 {
		c.Count("nontrivial", 1)
	}
	key := fmt.Sprintf("tree=%s specs=%s args=%q", shapeText(shape), specsText(shape, assign), args)
	if version {
		key += " Version(\"v version\") declared on the root"
	}
	cs := func() Case { return Case{"shape": si, "kinds": assign, "args": args, "version_declared": version} }
	obs := fmt.Sprintf("calls=%v returned=%v err=%v panicked=%v exits=%v", tr.calls, o.Returned, o.Err, o.Panicked, o.Exits)
	if o.Panicked || len(o.Exits) > 0 {
		c.Violation("C04", key, cs(), "Run returns under ContinueOnError", obs+" panic="+safeSprint(o.PanicVal))
		return
	}
	if r.target == nil {
		c.Count("expected_rejections", 1)
		if len(tr.calls) != 0 || o.Err == nil {
			c.Violation("C04", key, cs(), "usage error at "+r.rejectAt.path()+", nothing runs", obs)
		}
		return
	}
	want := "A:" + r.target.path()
	if len(tr.calls) != 1 || tr.calls[0] != want || o.Err != nil {
		c.Violation("C04", key, cs(), "exactly "+want+" runs, once; Run returns nil", obs)
		return
	}
	for i, n := range r.levels {
		// a sub-command is initialised lazily, after its parent's own tokens were bound: its initializer sees them
		if i > 0 {
			ok := false
			for _, b := range r.binds[i-1] {
				if normaliseSingle(lvlKinds[assign[r.levels[i-1].slot]], b) == tr.initSaw[n] {
					ok = true
				}
			}
			if !ok {
				c.Violation("C04", key+" (lazy initialisation)", cs(), fmt.Sprintf("the initializer of %s runs after %s was bound and sees %s", n.path(), r.levels[i-1].path(), strings.Join(r.binds[i-1], " / ")), "it saw "+tr.initSaw[n])
				return
			}
		}
		got := tr.vals[n]()
		k := lvlKinds[assign[n.slot]]
		ok := false
		for _, b := range r.binds[i] {
			if normaliseSingle(k, b) == got {
				ok = true
			}
		}
		if !ok {
			c.Violation("C04", key, cs(), fmt.Sprintf("level %s holds its own tokens: %s", n.path(), strings.Join(r.binds[i], " / ")), "holds "+got)
			return
		}
	}
	// the tree may grow between two runs of the same instance: a command declared on the root after a first
	// (root-level) run must be seen by the next run
	if r.target == shape && shape.kid("late") == nil && !version {
		lateRan, lateX := 0, ""
		app.Command("late lt", "declared after the first run", func(sub *cli.Cmd) {
			x := sub.StringArg("X", "", "")
			sub.Action = func() { lateRan++; lateX = *x }
		})
		tr.calls = nil
		args2 := append(append([]string{}, args...), "lt", "val")
		o2 := runIsolated(func() error { return app.Run(append([]string{"app"}, args2...)) })
		c.Count("second_runs_with_late_command", 1)
		if !(o2.Returned && o2.Err == nil && lateRan == 1 && lateX == "val" && len(tr.calls) == 0) {
			c.Violation("C04", key+" then Command(\"late lt\") and a second Run with "+fmt.Sprintf("%q", args2), cs(), "the command declared after the first run is addressed: its Action runs once with X=val, no other Action", fmt.Sprintf("late ran %d times X=%q other calls=%v err=%v panicked=%v", lateRan, lateX, tr.calls, o2.Err, o2.Panicked))
		}
	}
	if c.WantSample(fmt.Sprintf("depth%d", len(r.levels)-1)) && len(args) >= 3 {
		c.Sample(fmt.Sprintf("depth%d", len(r.levels)-1), Case{"tree": shapeText(shape), "specs": specsText(shape, assign), "args": args, "ran": tr.calls})
	}
}

func specsText(shape *tnode, assign []int) string {
	var p []string
	for _, n := range numberSlots(shape) {
		p = append(p, fmt.Sprintf("%s:%q", n.aliases[0], lvlKinds[assign[n.slot]].spec))
	}
	return strings.Join(p, " ")
}
