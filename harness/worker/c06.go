//go:build verif

package main

import (
	"flag"
	"fmt"
	"os"
	"strconv"
	"strings"

	cli "github.com/jawher/mow.cli"
)

// C06 (value precedence: command line, then environment, then default) and
// C15 (SetByUser is true exactly for values given on the command line).

func init() {
	register(&CheckDef{Name: "values", Props: []string{"C06", "C15"}, Run: runValues, Replay: replayValues})
}

// usePtrForms: declare through the *Ptr entry points (BoolPtr, IntsPtr, ..) instead of the value-returning ones
var usePtrForms bool

// useHideValue: declare with HideValue: true (the default is not shown in the help; nothing else changes)
var useHideValue bool

type vtype struct {
	name  string
	multi bool
	// declare as option / argument; returns a reader of the variable's value (formatted with %v)
	decl func(cmd *cli.Cmd, asOpt bool, name, env string, nonzero bool, sbu *bool) func() string
	// format the expected value for a list of tokens (single-valued: the last one)
	expect  func(tokens []string) string
	dflt    [2]string // expected default: zero, non-zero
	valid   string    // a valid environment value (single element)
	invalid string    // an invalid one ("" when every string is valid for the type)
	cmd     [2]string // two command-line values
}

func pInt(s string) int       { n, _ := strconv.ParseInt(s, 10, 64); return int(n) }
func pFlt(s string) float64   { f, _ := strconv.ParseFloat(s, 64); return f }
func pBool(s string) bool     { b, _ := strconv.ParseBool(s); return b }
func lastOf(t []string) string { return t[len(t)-1] }

var vtypes = []*vtype{
	{name: "bool", valid: "true", invalid: "maybe", cmd: [2]string{"true", "false"}, dflt: [2]string{"false", "true"},
		decl: func(cmd *cli.Cmd, asOpt bool, name, env string, nz bool, sbu *bool) func() string {
			var p *bool
			switch {
			case usePtrForms && asOpt:
				p = new(bool)
				*p = !nz // the variable already holds something else: the declaration stores the declared default
				cmd.BoolPtr(p, cli.BoolOpt{Name: name, EnvVar: env, Value: nz, SetByUser: sbu, HideValue: useHideValue})
			case usePtrForms:
				p = new(bool)
				*p = !nz // the variable already holds something else: the declaration stores the declared default
				cmd.BoolPtr(p, cli.BoolArg{Name: name, EnvVar: env, Value: nz, SetByUser: sbu, HideValue: useHideValue})
			case asOpt:
				p = cmd.Bool(cli.BoolOpt{Name: name, EnvVar: env, Value: nz, SetByUser: sbu, HideValue: useHideValue})
			default:
				p = cmd.Bool(cli.BoolArg{Name: name, EnvVar: env, Value: nz, SetByUser: sbu, HideValue: useHideValue})
			}
			return func() string { return fmt.Sprint(*p) }
		},
		expect: func(t []string) string { return fmt.Sprint(pBool(lastOf(t))) }},
	{name: "string", valid: "ev", cmd: [2]string{"s1", " s2 "}, dflt: [2]string{"", "dflt"},
		decl: func(cmd *cli.Cmd, asOpt bool, name, env string, nz bool, sbu *bool) func() string {
			v := map[bool]string{false: "", true: "dflt"}[nz]
			var p *string
			switch {
			case usePtrForms && asOpt:
				p = new(string)
				*p = "preset"
				cmd.StringPtr(p, cli.StringOpt{Name: name, EnvVar: env, Value: v, SetByUser: sbu, HideValue: useHideValue})
			case usePtrForms:
				p = new(string)
				*p = "preset"
				cmd.StringPtr(p, cli.StringArg{Name: name, EnvVar: env, Value: v, SetByUser: sbu, HideValue: useHideValue})
			case asOpt:
				p = cmd.String(cli.StringOpt{Name: name, EnvVar: env, Value: v, SetByUser: sbu, HideValue: useHideValue})
			default:
				p = cmd.String(cli.StringArg{Name: name, EnvVar: env, Value: v, SetByUser: sbu, HideValue: useHideValue})
			}
			return func() string { return *p }
		},
		expect: func(t []string) string { return lastOf(t) }},
	{name: "int", valid: "42", invalid: "zz", cmd: [2]string{"5", "6"}, dflt: [2]string{"0", "7"},
		decl: func(cmd *cli.Cmd, asOpt bool, name, env string, nz bool, sbu *bool) func() string {
			v := map[bool]int{false: 0, true: 7}[nz]
			var p *int
			switch {
			case usePtrForms && asOpt:
				p = new(int)
				*p = 8080
				cmd.IntPtr(p, cli.IntOpt{Name: name, EnvVar: env, Value: v, SetByUser: sbu, HideValue: useHideValue})
			case usePtrForms:
				p = new(int)
				*p = 8080
				cmd.IntPtr(p, cli.IntArg{Name: name, EnvVar: env, Value: v, SetByUser: sbu, HideValue: useHideValue})
			case asOpt:
				p = cmd.Int(cli.IntOpt{Name: name, EnvVar: env, Value: v, SetByUser: sbu, HideValue: useHideValue})
			default:
				p = cmd.Int(cli.IntArg{Name: name, EnvVar: env, Value: v, SetByUser: sbu, HideValue: useHideValue})
			}
			return func() string { return fmt.Sprint(*p) }
		},
		expect: func(t []string) string { return fmt.Sprint(pInt(lastOf(t))) }},
	{name: "float64", valid: "2.25", invalid: "zz", cmd: [2]string{"0.5", "6.25"}, dflt: [2]string{"0", "1.5"},
		decl: func(cmd *cli.Cmd, asOpt bool, name, env string, nz bool, sbu *bool) func() string {
			v := map[bool]float64{false: 0, true: 1.5}[nz]
			var p *float64
			switch {
			case usePtrForms && asOpt:
				p = new(float64)
				*p = 8080.5
				cmd.Float64Ptr(p, cli.Float64Opt{Name: name, EnvVar: env, Value: v, SetByUser: sbu, HideValue: useHideValue})
			case usePtrForms:
				p = new(float64)
				*p = 8080.5
				cmd.Float64Ptr(p, cli.Float64Arg{Name: name, EnvVar: env, Value: v, SetByUser: sbu, HideValue: useHideValue})
			case asOpt:
				p = cmd.Float64(cli.Float64Opt{Name: name, EnvVar: env, Value: v, SetByUser: sbu, HideValue: useHideValue})
			default:
				p = cmd.Float64(cli.Float64Arg{Name: name, EnvVar: env, Value: v, SetByUser: sbu, HideValue: useHideValue})
			}
			return func() string { return fmt.Sprint(*p) }
		},
		expect: func(t []string) string { return fmt.Sprint(pFlt(lastOf(t))) }},
	{name: "strings", multi: true, valid: "ev", cmd: [2]string{"s1", " s2 "}, dflt: [2]string{`[]`, `["d1" "d2"]`},
		decl: func(cmd *cli.Cmd, asOpt bool, name, env string, nz bool, sbu *bool) func() string {
			var v []string
			if nz {
				v = []string{"d1", "d2"}
			}
			var p *[]string
			switch {
			case usePtrForms && asOpt:
				p = new([]string)
				*p = []string{"preset"}
				cmd.StringsPtr(p, cli.StringsOpt{Name: name, EnvVar: env, Value: v, SetByUser: sbu, HideValue: useHideValue})
			case usePtrForms:
				p = new([]string)
				*p = []string{"preset"}
				cmd.StringsPtr(p, cli.StringsArg{Name: name, EnvVar: env, Value: v, SetByUser: sbu, HideValue: useHideValue})
			case asOpt:
				p = cmd.Strings(cli.StringsOpt{Name: name, EnvVar: env, Value: v, SetByUser: sbu, HideValue: useHideValue})
			default:
				p = cmd.Strings(cli.StringsArg{Name: name, EnvVar: env, Value: v, SetByUser: sbu, HideValue: useHideValue})
			}
			return func() string { return fmt.Sprintf("%q", *p) }
		},
		expect: func(t []string) string { return fmt.Sprintf("%q", t) }},
	{name: "ints", multi: true, valid: "42", invalid: "zz", cmd: [2]string{"5", "6"}, dflt: [2]string{"[]", "[7 8]"},
		decl: func(cmd *cli.Cmd, asOpt bool, name, env string, nz bool, sbu *bool) func() string {
			var v []int
			if nz {
				v = []int{7, 8}
			}
			var p *[]int
			switch {
			case usePtrForms && asOpt:
				p = new([]int)
				*p = []int{8080}
				cmd.IntsPtr(p, cli.IntsOpt{Name: name, EnvVar: env, Value: v, SetByUser: sbu, HideValue: useHideValue})
			case usePtrForms:
				p = new([]int)
				*p = []int{8080}
				cmd.IntsPtr(p, cli.IntsArg{Name: name, EnvVar: env, Value: v, SetByUser: sbu, HideValue: useHideValue})
			case asOpt:
				p = cmd.Ints(cli.IntsOpt{Name: name, EnvVar: env, Value: v, SetByUser: sbu, HideValue: useHideValue})
			default:
				p = cmd.Ints(cli.IntsArg{Name: name, EnvVar: env, Value: v, SetByUser: sbu, HideValue: useHideValue})
			}
			return func() string { return fmt.Sprint(*p) }
		},
		expect: func(t []string) string {
			var r []int
			for _, x := range t {
				r = append(r, pInt(x))
			}
			return fmt.Sprint(r)
		}},
	{name: "floats64", multi: true, valid: "2.25", invalid: "zz", cmd: [2]string{"0.5", "6.25"}, dflt: [2]string{"[]", "[1.5 2.5]"},
		decl: func(cmd *cli.Cmd, asOpt bool, name, env string, nz bool, sbu *bool) func() string {
			var v []float64
			if nz {
				v = []float64{1.5, 2.5}
			}
			var p *[]float64
			switch {
			case usePtrForms && asOpt:
				p = new([]float64)
				*p = []float64{8080.5}
				cmd.Floats64Ptr(p, cli.Floats64Opt{Name: name, EnvVar: env, Value: v, SetByUser: sbu, HideValue: useHideValue})
			case usePtrForms:
				p = new([]float64)
				*p = []float64{8080.5}
				cmd.Floats64Ptr(p, cli.Floats64Arg{Name: name, EnvVar: env, Value: v, SetByUser: sbu, HideValue: useHideValue})
			case asOpt:
				p = cmd.Floats64(cli.Floats64Opt{Name: name, EnvVar: env, Value: v, SetByUser: sbu, HideValue: useHideValue})
			default:
				p = cmd.Floats64(cli.Floats64Arg{Name: name, EnvVar: env, Value: v, SetByUser: sbu, HideValue: useHideValue})
			}
			return func() string { return fmt.Sprint(*p) }
		},
		expect: func(t []string) string {
			var r []float64
			for _, x := range t {
				r = append(r, pFlt(x))
			}
			return fmt.Sprint(r)
		}},
}

// states of one environment variable
var envStates = []string{"unset", "empty", "valid", "invalid", "valid-list-blanks", "invalid-elem", "list-empty-item", "padded-single"}

// envValue returns (set, raw value, tokens when valid) for a state.
func envValue(t *vtype, state string, which int) (set bool, raw string, tokens []string, ok bool) {
	second := map[string]string{"true": "false", "ev": "ev2", "42": "43", "2.25": "3.5"}[t.valid]
	v := t.valid
	if which == 1 {
		v = second
	}
	switch state {
	case "unset":
		return false, "", nil, false
	case "empty":
		return true, "", nil, false
	case "valid":
		return true, v, []string{v}, true
	case "invalid":
		if t.invalid == "" {
			return true, "", nil, false
		}
		return true, t.invalid, nil, false
	case "valid-list-blanks":
		if !t.multi {
			return true, "", nil, false
		}
		return true, " " + v + " , " + second + " ", []string{v, second}, true
	case "invalid-elem":
		if !t.multi || t.invalid == "" {
			return true, "", nil, false
		}
		return true, v + "," + t.invalid, nil, false
	case "padded-single":
		// a single-valued variable takes the environment content as it is: blanks around a number or a bool make it
		// invalid for the type (strconv), blanks around a string belong to the string
		if t.multi {
			return true, "", nil, false
		}
		if t.name == "string" {
			return true, " " + v + " ", []string{" " + v + " "}, true
		}
		return true, " " + v + " ", nil, false
	case "list-empty-item":
		// "v," : two items, the second empty - a valid list of strings, an invalid list of numbers
		if !t.multi {
			return true, "", nil, false
		}
		if t.name == "strings" {
			return true, v + ",", []string{v, ""}, true
		}
		return true, v + ",", nil, false
	}
	panic(state)
}

func applicable(t *vtype, state string) bool {
	switch state {
	case "invalid":
		return t.invalid != ""
	case "valid-list-blanks":
		return t.multi
	case "invalid-elem":
		return t.multi && t.invalid != ""
	case "list-empty-item":
		return t.multi
	case "padded-single":
		return !t.multi
	}
	return true
}

// command-line spellings of one value
func optSpellings(t *vtype, v string) [][]string {
	if t.name == "bool" {
		if v == "true" {
			return [][]string{{"-x"}, {"--xx"}, {"-x=true"}, {"--xx=true"}}
		}
		return [][]string{{"-x=false"}, {"--xx=false"}}
	}
	return [][]string{{"-x=" + v}, {"-x", v}, {"-x" + v}, {"--xx=" + v}, {"--xx", v}}
}

func runValues(c *Ctx) {
	idx := 0
	if c.Shard == 0 && c.Begin("values-shared") {
		sharedCases(c)
	}
	if c.Shard == 0 && c.Begin("values-shared-default") {
		sharedDefaultCases(c)
	}
	for _, t := range vtypes {
		for _, asOpt := range []bool{true, false} {
			for nz := 0; nz < 2; nz++ {
				// environment lists of 0, 1, 2 variables
				var envLists [][]string
				envLists = append(envLists, nil)
				for _, s1 := range envStates {
					if !applicable(t, s1) {
						continue
					}
					envLists = append(envLists, []string{s1})
					for _, s2 := range envStates {
						if applicable(t, s2) {
							envLists = append(envLists, []string{s1, s2})
						}
					}
				}
				// command lines giving the value 0, 1 or 2 times
				var cmdlines [][]string
				var cmdvals [][]string
				cmdlines, cmdvals = append(cmdlines, nil), append(cmdvals, nil)
				if asOpt {
					for _, a := range optSpellings(t, t.cmd[0]) {
						cmdlines, cmdvals = append(cmdlines, a), append(cmdvals, []string{t.cmd[0]})
						for _, b := range optSpellings(t, t.cmd[1]) {
							cmdlines = append(cmdlines, append(append([]string{}, a...), b...))
							cmdvals = append(cmdvals, []string{t.cmd[0], t.cmd[1]})
						}
					}
				} else {
					cmdlines = append(cmdlines, []string{t.cmd[0]}, []string{t.cmd[0], t.cmd[1]})
					cmdvals = append(cmdvals, []string{t.cmd[0]}, []string{t.cmd[0], t.cmd[1]})
				}
				for _, el := range envLists {
					for ci := range cmdlines {
						idx++
						if !c.Mine(idx) {
							continue
						}
						if !c.Begin("values", t.name) {
							continue
						}
						for _, ptr := range []bool{false, true} {
							usePtrForms = ptr
							valuesCase(c, t, asOpt, nz == 1, el, cmdlines[ci], cmdvals[ci], false)
							valuesCase(c, t, asOpt, nz == 1, el, cmdlines[ci], cmdvals[ci], true)
						}
						// HideValue only changes the help text
						usePtrForms, useHideValue = false, true
						valuesCase(c, t, asOpt, nz == 1, el, cmdlines[ci], cmdvals[ci], false)
						usePtrForms, useHideValue = false, false
					}
				}
			}
		}
	}
	// a command-line value that spells exactly what the variable already holds (its default, its environment value)
	// is a value given by the user all the same
	if c.Shard == 0 && c.Begin("values-same-as-current") {
		n := 0
		for _, t := range vtypes {
			dtok := map[string]string{"bool": "true", "string": "dflt", "int": "7", "float64": "1.5"}[t.name]
			if dtok == "" {
				continue
			}
			for _, asOpt := range []bool{true, false} {
				for _, ptr := range []bool{false, true} {
					usePtrForms = ptr
					for _, v := range []struct {
						tok string
						env []string
					}{{dtok, nil}, {t.valid, []string{"valid"}}} {
						lines := [][]string{{v.tok}}
						if asOpt {
							lines = optSpellings(t, v.tok)
						}
						for _, l := range lines {
							n++
							valuesCase(c, t, asOpt, true, v.env, l, []string{v.tok}, false)
						}
					}
				}
				usePtrForms = false
			}
		}
		c.Note("same as current", fmt.Sprintf("%d cases: single-valued types, the command line spells the non-zero default / the environment value the variable already holds", n))
	}
	c.Note("product", "7 built-in types x {option `[-x...]`, argument `[X...]`} x default {zero, non-zero} x environment lists of 0/1/2 variables each in "+strings.Join(envStates, "/")+" (where the type has such values) x {value-returning, *Ptr} declaration forms x command lines giving the value 0, 1 or 2 times in every spelling (-x=v, -x v, -xv, --xx=v, --xx v; flags: -x, --xx, -x=true, --xx=true, -x=false, --xx=false)")
}

func replayValues(c *Ctx, cs Case) {
	if sd, _ := cs["shared_default"].(bool); sd {
		nested, _ := cs["nested"].(bool)
		sharedDefaultCase(c, cInt(cs, "kind"), cInt(cs, "layout"), cInt(cs, "mask"), nested)
		return
	}
	if sh, _ := cs["shared"].(bool); sh {
		swap, _ := cs["swap"].(bool)
		nested, _ := cs["nested"].(bool)
		sharedCase(c, cInt(cs, "kind"), cInt(cs, "layout"), cInt(cs, "mask"), swap, nested)
		return
	}
	for _, t := range vtypes {
		if t.name == cStr(cs, "type") {
			opt, _ := cs["opt"].(bool)
			nz, _ := cs["nonzero"].(bool)
			nested, _ := cs["nested"].(bool)
			usePtrForms, _ = cs["ptr"].(bool)
			useHideValue, _ = cs["hide_value"].(bool)
			valuesCase(c, t, opt, nz, cStrs(cs, "env"), cStrs(cs, "cmdline"), cStrs(cs, "cmdvals"), nested)
		}
	}
}

func valuesCase(c *Ctx, t *vtype, asOpt, nz bool, envList, cmdline, cmdvals []string, nested bool) {
	var envNames []string
	for i, st := range envList {
		name := fmt.Sprintf("VQ_E%d", i+1)
		envNames = append(envNames, name)
		if set, raw, _, _ := envValue(t, st, i); set {
			os.Setenv(name, raw)
		}
	}
	app := cli.App("app", "")
	app.ErrorHandling = flag.ContinueOnError
	sbu, rootSBU := false, false
	var read func() string
	declare := func(cmd *cli.Cmd) {
		if asOpt {
			read = t.decl(cmd, true, "x xx", strings.Join(envNames, " "), nz, &sbu)
			cmd.Spec = "[-x...]"
		} else {
			read = t.decl(cmd, false, "X", strings.Join(envNames, " "), nz, &sbu)
			cmd.Spec = "[X...]"
		}
	}
	ran, got, gotSBU, gotRoot := 0, "", false, false
	action := func() { ran++; got = read(); gotSBU = sbu; gotRoot = rootSBU }
	argv := append([]string{"app"}, cmdline...)
	rootGiven := false
	if nested {
		// the item is declared on a sub-command (initialised lazily, during Run); the root has its own flag
		app.Bool(cli.BoolOpt{Name: "r", SetByUser: &rootSBU})
		app.Spec = "[-r]"
		app.Command("sub", "", func(sub *cli.Cmd) {
			declare(sub)
			sub.Action = action
		})
		rootGiven = len(cmdline)%2 == 1
		argv = []string{"app"}
		if rootGiven {
			argv = append(argv, "-r")
		}
		argv = append(append(argv, "sub"), cmdline...)
	} else {
		declare(app.Cmd)
		app.Action = action
		for _, n := range envNames {
			os.Unsetenv(n)
		}
	}
	sharedBuf.Reset()
	o := runDirect(&sharedBuf, func() error { return app.Run(argv) })
	for _, n := range envNames {
		os.Unsetenv(n)
	}

	// reference (10 lines)
	want, source := t.dflt[map[bool]int{false: 0, true: 1}[nz]], "default"
	if len(cmdvals) > 0 {
		want, source = t.expect(cmdvals), "command line"
	} else {
		for i, st := range envList {
			if _, _, toks, ok := envValue(t, st, i); ok {
				want, source = t.expect(toks), fmt.Sprintf("environment variable %d", i+1)
				break
			}
		}
	}
	kind := map[bool]string{true: "opt", false: "arg"}[asOpt]
	key := fmt.Sprintf("type=%s kind=%s default=%s env=[%s] cmdline=%v", t.name, kind, map[bool]string{false: "zero", true: "nonzero"}[nz], strings.Join(envList, ","), cmdline)
	if nested {
		key += " on-subcommand"
	}
	if usePtrForms {
		key += " ptr-form"
	}
	if useHideValue {
		key += " hide-value"
	}
	cs := func() Case {
		return Case{"type": t.name, "opt": asOpt, "nonzero": nz, "env": envList, "cmdline": cmdline, "cmdvals": cmdvals, "nested": nested, "ptr": usePtrForms, "hide_value": useHideValue}
	}
	offers := 0
	if len(cmdvals) > 0 {
		offers++
	}
	for i, st := range envList {
		if set, raw, _, _ := envValue(t, st, i); set && raw != "" {
			offers++
			break
		}
	}
	if nz {
		offers++
	}
	for _, p := range []string{"C06", "C15"} {
		if c.On(p) {
			c.Count(p+":evaluations", 1)
			if offers >= 2 {
				c.Count(p+":nontrivial", 1)
			}
		}
	}
	if !(o.Returned && o.Err == nil && ran == 1) {
		for _, p := range []string{"C06", "C15"} {
			if c.On(p) {
				c.Violation(p, key, cs(), "the command line is valid: the Action runs once", fmt.Sprintf("returned=%v err=%v ran=%d panic=%v", o.Returned, o.Err, ran, safeSprint(o.PanicVal)))
			}
		}
		return
	}
	if c.On("C06") && got != want {
		c.Violation("C06", key, cs(), fmt.Sprintf("%s (from the %s)", want, source), got)
	}
	if c.On("C15") && (gotSBU != (len(cmdvals) > 0) || (nested && gotRoot != rootGiven)) {
		c.Violation("C15", key, cs(), fmt.Sprintf("SetByUser=%v (root flag: %v)", len(cmdvals) > 0, rootGiven), fmt.Sprintf("SetByUser=%v (root flag: %v)", gotSBU, gotRoot))
	}
	// a second parse on the same application: command-line values replace whatever the first parse left
	if !nested {
		var argv2 []string
		if asOpt {
			argv2 = append([]string{"app"}, optSpellings(t, t.cmd[1])[0]...)
		} else {
			argv2 = []string{"app", t.cmd[1]}
		}
		ran = 0
		sharedBuf.Reset()
		o2 := runDirect(&sharedBuf, func() error { return app.Run(argv2) })
		want2 := t.expect([]string{t.cmd[1]})
		for _, p := range []string{"C06", "C15"} {
			if c.On(p) {
				c.Count(p+":second_parses", 1)
			}
		}
		if !(o2.Returned && o2.Err == nil && ran == 1) {
			if c.On("C06") {
				c.Violation("C06", key+fmt.Sprintf(" then second Run %v", argv2[1:]), cs(), "the second command line is valid: the Action runs once", fmt.Sprintf("returned=%v err=%v ran=%d panic=%v", o2.Returned, o2.Err, ran, safeSprint(o2.PanicVal)))
			}
		} else {
			if c.On("C06") && got != want2 {
				c.Violation("C06", key+fmt.Sprintf(" then second Run %v", argv2[1:]), cs(), want2+" (exactly the values of the second command line)", got)
			}
			if c.On("C15") && !gotSBU {
				c.Violation("C15", key+fmt.Sprintf(" then second Run %v", argv2[1:]), cs(), "SetByUser=true", "SetByUser=false")
			}
		}
	}
	if offers >= 2 && c.WantSample(t.name+"-"+kind) {
		c.Sample(t.name+"-"+kind, Case{"case": key, "value": got, "source": source, "SetByUser": gotSBU})
	}
}
