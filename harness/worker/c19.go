//go:build verif

package main

import (
	"flag"
	"fmt"
	"os"
	"strings"

	cli "github.com/jawher/mow.cli"
	"github.com/jawher/mow.cli/internal/zverif/ref"
)

// C19: custom value types are driven through the documented protocol.

func init() {
	register(&CheckDef{Name: "custom", Props: []string{"C19"}, Run: runCustom, Replay: replayCustom})
}

var c19Specs = []string{"[-c...]", "[C...]", "[OPTIONS] C", "-c", "-c C..."}
var c19Toks = []string{"-c", "--cc", "-c=v", "-c=FAIL", "-cw", "v", "w", "FAIL", "--",
	// values that read like booleans are ordinary tokens for Set; blanks belong to the token
	"-c=off", "--cc=yes", " p ",
	// also the spellings strconv.ParseBool understands: Set receives "1" and "F", not "true" and "false"
	"-c=1", "--cc=F"}
var c19Envs = []string{"", "ev", "e1, e2", "FAIL"}

func runCustom(c *Ctx) {
	idx := 0
	alen := 3
	if c.Thorough() {
		alen = 4
	}
	argvs := ref.Argvs(c19Toks, alen)
	for ki := range cvKinds {
		for _, spec := range c19Specs {
			for _, env := range c19Envs {
				idx++
				if !c.Mine(idx) {
					continue
				}
				if !c.Begin("custom", cvKinds[ki].name, spec, env) {
					continue
				}
				for _, argv := range argvs {
					c.Beat()
					customCase(c, ki, spec, env, argv)
				}
			}
		}
	}
	c.Note("product", fmt.Sprintf("18 custom types (12 struct types: IsBoolFlag absent/false/true x Clear absent/present x IsDefault absent/present; 4 method-less types whose underlying kind is bool, []string, string, int; 2 decorators of one Go type whose IsBoolFlag() answers differently per value, each used after the other), declared as option -c/--cc and as argument C, x specs %q x environment values %q (on the option, or on the argument when the spec has no option) x %d argvs (length <= %d over %q; the token FAIL makes Set return an error)", c19Specs, c19Envs, len(argvs), alen, c19Toks))
}

func replayCustom(c *Ctx, cs Case) {
	customCase(c, cInt(cs, "kind"), cStr(cs, "spec"), cStr(cs, "env"), cStrs(cs, "argv"))
}

func customCase(c *Ctx, ki int, spec, env string, argv []string) {
	cvGC()
	k := cvKinds[ki]
	d := &ref.Decl{Opts: []ref.OptDecl{{Key: "c", Names: []string{"-c", "--cc"}, Flag: k.isBool}}, Args: []string{"C"}}
	if k.primeOpposite {
		w := &cvWrap{flagLike: !k.isBool}
		app0 := cli.App("app", "")
		app0.ErrorHandling = flag.ContinueOnError
		app0.Spec = "[-c]"
		app0.Var(cli.VarOpt{Name: "c cc", Value: w})
		app0.Action = func() {}
		sharedBuf.Reset()
		// in the spelling that depends on the capability: a bare flag, or a detached value
		first := []string{"app", "-c", "v"}
		if w.flagLike {
			first = []string{"app", "-c"}
		}
		runDirect(&sharedBuf, func() error { return app0.Run(first) })
	}
	optV, argV := k.mk(), k.mk()
	envOnOpt := strings.Contains(spec, "-c") || strings.Contains(spec, "OPTIONS")
	if env != "" {
		os.Setenv("VQ_C", env)
	}
	app := cli.App("app", "")
	app.ErrorHandling = flag.ContinueOnError
	app.Spec = spec
	oe, ae := "", ""
	if env != "" && envOnOpt {
		oe = "VQ_C"
	} else if env != "" {
		ae = "VQ_C"
	}
	app.Var(cli.VarOpt{Name: "c cc", Value: optV, EnvVar: oe})
	app.Var(cli.VarArg{Name: "C", Value: argV, EnvVar: ae})
	os.Unsetenv("VQ_C")
	declLog := [2][]string{optV.base().log, argV.base().log}
	optV.base().log, argV.base().log = nil, nil
	ran := 0
	app.Action = func() { ran++ }
	sharedBuf.Reset()
	o := runDirect(&sharedBuf, func() error { return app.Run(append([]string{"app"}, argv...)) })
	runLog := [2][]string{optV.base().log, argV.base().log}
	if o.Returned && !o.Panicked {
		// the same command line once more on the same instance: the same calls again (Clear once, then the Sets)
		optV.base().log, argV.base().log = nil, nil
		ran1 := ran
		ran = 0
		sharedBuf.Reset()
		o2 := runDirect(&sharedBuf, func() error { return app.Run(append([]string{"app"}, argv...)) })
		second := [2][]string{optV.base().log, argV.base().log}
		c.Count("second_runs_on_same_instance", 1)
		if env == "" && (fmt.Sprint(second) != fmt.Sprint(runLog) || ran != ran1 || (o2.Err == nil) != (o.Err == nil)) && (o.Err == nil || len(runLog[0])+len(runLog[1]) == 0) {
			c.Violation("C19", fmt.Sprintf("type{%s} spec=%q env=%q argv=%q (second Run on the same instance)", k.name, spec, env, argv), Case{"kind": ki, "spec": spec, "env": env, "argv": argv},
				fmt.Sprintf("the calls of the first run again: option: %v argument: %v, action runs %d", runLog[0], runLog[1], ran1), fmt.Sprintf("option: %v argument: %v, action runs %d err=%v", second[0], second[1], ran, o2.Err))
		}
		ran = ran1
	}
	c.Count("evaluations", 1)
	key := fmt.Sprintf("type{%s} spec=%q env=%q argv=%q", k.name, spec, env, argv)
	cs := func() Case { return Case{"kind": ki, "spec": spec, "env": env, "argv": argv} }
	if o.Panicked || len(o.Exits) > 0 || ran > 1 {
		c.Violation("C19", key, cs(), "Run returns", fmt.Sprintf("panic=%v exits=%v ran=%d", safeSprint(o.PanicVal), o.Exits, ran))
		return
	}
	// ---- declaration phase: the environment content is delivered through Set
	envTarget := 0
	if !envOnOpt {
		envTarget = 1
	}
	var wantDecl []string
	envOK := false
	if env != "" {
		if k.hasClear {
			wantDecl = append(wantDecl, "Clear")
			envOK = true
			for _, e := range strings.Split(env, ",") {
				wantDecl = append(wantDecl, "Set("+strings.TrimSpace(e)+")")
				if strings.TrimSpace(e) == "FAIL" {
					envOK = false
					break
				}
			}
			if !envOK {
				wantDecl = append(wantDecl, "Clear")
			}
		} else {
			wantDecl = append(wantDecl, "Set("+env+")")
			envOK = env != "FAIL"
		}
	}
	// The property does not fix the call sequence at declaration time (only that environment content arrives
	// through Set); judged here: the value without an environment variable is not touched, and every Set
	// argument is the variable's content or one of its comma-separated, trimmed elements - nothing invented.
	_ = wantDecl
	allowed := map[string]bool{"Set(" + env + ")": true, "Clear": true}
	for _, e := range strings.Split(env, ",") {
		allowed["Set("+strings.TrimSpace(e)+")"] = true
	}
	badDecl := len(declLog[1-envTarget]) != 0
	sets := 0
	for _, call := range declLog[envTarget] {
		if !allowed[call] || (env == "" && call != "") {
			badDecl = true
		}
		if strings.HasPrefix(call, "Set(") {
			sets++
		}
	}
	if env != "" && sets == 0 {
		badDecl = true
	}
	if badDecl {
		c.Violation("C19", key+" (declaration)", cs(), "at declaration only the environment content is delivered, through Set", fmt.Sprintf("option: %v argument: %v", declLog[0], declLog[1]))
		return
	}
	// ---- run phase, against the reference matcher
	node, err := ref.ParseSpec(d, spec)
	if err != nil {
		panic(err)
	}
	if envOK && envOnOpt {
		node = ref.Optionalise(node, map[int]bool{0: true}, false)
	}
	ev := ref.Eval{D: d, Argv: argv}
	v := ev.Run(node)
	if v.Unclaimed {
		c.Count("unclaimed", 1)
		return
	}
	if envOK && envOnOpt && !v.Accept {
		// an env-backed option inside [OPTIONS]: satisfaction by the environment alone is not claimed (U3)
		ev2 := ref.Eval{D: d, Argv: argv, GroupAny: true}
		if v2 := ev2.Run(ref.Optionalise(node, map[int]bool{0: true}, true)); v2.Accept || v2.Unclaimed {
			c.Count("unclaimed", 1)
			return
		}
	}
	logText := func(l [2][]string) string { return fmt.Sprintf("option: %v argument: %v", l[0], l[1]) }
	if !v.Accept {
		if ran != 0 || o.Err == nil {
			c.Violation("C19", key, cs(), "usage error (no derivation)", fmt.Sprintf("ran=%d err=%v", ran, o.Err))
		} else if len(runLog[0])+len(runLog[1]) != 0 {
			c.Violation("C19", key, cs(), "no call on the custom values when the command line is rejected by the spec", logText(runLog))
		}
		return
	}
	c.Count("nontrivial", 1)
	// expected call logs for each accepting derivation
	matched := false
	var wants []string
	for _, b := range v.Binds {
		lists := parseBindText(b)
		var want [2][]string
		fails := false
		for ci, name := range []string{"c", "C"} {
			toks := lists[name]
			if len(toks) == 0 {
				continue
			}
			if k.hasClear {
				want[ci] = append(want[ci], "Clear")
			}
			for _, t := range toks {
				want[ci] = append(want[ci], "Set("+t+")")
				if t == "FAIL" {
					fails = true
					break
				}
			}
		}
		wants = append(wants, logText(want)+map[bool]string{true: " then usage error", false: ""}[fails])
		if !fails {
			if ran == 1 && o.Err == nil && strings.Join(runLog[0], " ") == strings.Join(want[0], " ") && strings.Join(runLog[1], " ") == strings.Join(want[1], " ") {
				matched = true
			}
			continue
		}
		// a Set error: usage error, Action not run; the failing container's calls end with the failing Set,
		// the other container (filled in map order) shows nothing or its complete sequence
		if ran != 0 || o.Err == nil {
			continue
		}
		okAll := true
		sawFail := false
		for ci := 0; ci < 2; ci++ {
			got, w := strings.Join(runLog[ci], " "), strings.Join(want[ci], " ")
			if strings.HasSuffix(w, "Set(FAIL)") {
				if got == w {
					sawFail = true
				} else if got != "" {
					okAll = false
				}
			} else if got != "" && got != w {
				okAll = false
			}
		}
		if okAll && sawFail {
			matched = true
		}
	}
	if !matched {
		c.Violation("C19", key, cs(), "calls "+strings.Join(wants, "  /  "), logText(runLog)+fmt.Sprintf(" ran=%d err=%v", ran, o.Err))
	} else if len(argv) >= 2 && c.WantSample(k.name) {
		c.Sample(k.name, Case{"type": k.name, "spec": spec, "env": env, "argv": argv, "declaration_calls": logText(declLog), "run_calls": logText(runLog), "action_ran": ran})
	}
}

// parseBindText parses the canonical "name=[v1,v2] " form.
func parseBindText(b string) map[string][]string {
	m := map[string][]string{}
	for _, f := range strings.Split(strings.TrimSpace(b), "] ") {
		f = strings.TrimSuffix(f, "]")
		if i := strings.Index(f, "=["); i > 0 {
			m[f[:i]] = strings.Split(f[i+2:], ",")
		}
	}
	return m
}
