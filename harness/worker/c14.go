//go:build verif

package main

import (
	"fmt"
	"strings"

	cli "github.com/jawher/mow.cli"
)

// C14: help and version requests short-circuit everything else.

func init() {
	register(&CheckDef{Name: "help", Props: []string{"C14"}, Run: runHelp, Replay: replayHelp})
}

var helpUniverse = [][]string{{}, {"x"}, {"-f", "x"}, {"-z"}, {"--", "x"}, {"--"}}

func runHelp(c *Ctx) {
	if c.Shard == 0 && c.Begin("help-deep") {
		deepHelp(c)
	}
	idx := 0
	kinds := []int{1, 3, 8, 9}
	for si, shape := range treeShapes(c.Thorough()) {
		slots := numberSlots(shape)
		ks := kinds
		if !c.Thorough() {
			ks = []int{3, 8, 9}
		}
		if len(slots) > 4 {
			ks = []int{3, 8, 9}
		}
		ntrees := 0
		kindAssignments(len(slots), ks, func(assign []int) {
			ntrees++
			idx++
			if !c.Mine(idx) {
				return
			}
			if !c.Begin("help", fmt.Sprint(si), fmt.Sprint(assign)) {
				return
			}
			as := append([]int{}, assign...)
			enumPaths(shape, func(target *tnode, names []string) {
				p := pathNodes(target)
				per := make([][][]string, len(p))
				for i, n := range p {
					per[i] = levelArgvs(n, helpUniverse)
				}
				enumInvocations(p, names, per, func(args []string, own [][]string) {
					for pol := 0; pol < 3; pol++ {
						for pos := 0; pos <= len(args); pos++ {
							for _, h := range []string{"-h", "--help"} {
								if h == "--help" && (pos+pol)%2 == 1 {
									continue // alternate the spelling instead of doubling the space
								}
								w := append(append(append([]string{}, args[:pos]...), h), args[pos:]...)
								c.Beat()
								helpCase(c, si, shape, as, pol, w, false)
								if pos%2 == 0 {
									// sub-commands with a policy of their own: the addressed command's policy decides
									helpCase3(c, si, shape, as, pol, (pol+1+pos/2)%3, w, false, false)
								}
								if pos%3 == 0 {
									// a declared version flag that is NOT the first argument is an ordinary flag: help still wins
									helpCase2(c, si, shape, as, pol, append([]string{"-f", "-v"}, w...), true, false)
								}
							}
						}
						// version flag in first position (and, as a control, the plain invocation)
						for _, v := range []string{"-v", "--version"} {
							helpCase(c, si, shape, as, pol, append([]string{v}, args...), true)
						}
					}
				})
			})
		})
		if c.Shard == 0 {
			c.Note(fmt.Sprintf("shape %d", si), fmt.Sprintf("%s: %d spec assignments over specs %s; every target x every alias combination x per-level argvs %v x a help token (-h / --help alternating) inserted at every position x the three policies; plus a declared version flag (-v / --version) in first position", shapeText(shape), ntrees, kindSpecs(ks), helpUniverse))
		}
	}
}

// deepHelp: a deep tree (4 levels below the root are reached) with several siblings at the last levels and
// declaration-free commands (so that the same instance can be run twice): the help of every command must carry
// its own full path, on a first run and on a second run of the same instance after another command's help.
func deepHelp(c *Ctx) {
	shape := mkTree("app", mkTree("c1", mkTree("d1", mkTree("e1 f1", mkTree("g1"), mkTree("g2 h2"), mkTree("g3")), mkTree("e2"), mkTree("e3 f3")), mkTree("d2")), mkTree("c2"))
	slots := numberSlots(shape)
	assign := make([]int, len(slots)) // kind 0 everywhere
	var all [][]string                // the name path of every command
	enumPaths(shape, func(target *tnode, names []string) {
		if len(names) > 0 && names[len(names)-1] == target.aliases[0] {
			all = append(all, append([]string{}, names...))
		}
	})
	for pol := 0; pol < 3; pol++ {
		for _, p := range all {
			for _, h := range []string{"-h", "--help"} {
				helpCase(c, 99, shape, assign, pol, append(append([]string{}, p...), h), false)
			}
			// second run on the same instance: first the help of the parent command, then this one's
			if len(p) < 2 {
				continue
			}
			for up := 1; up <= 2 && up < len(p); up++ {
				app, tr := buildTree(shape, treeOpts{kinds: assign, rootPol: pol, hooks: true})
				runIsolated(func() error { return app.Run(append(append([]string{"app"}, p[:len(p)-up]...), "--help")) })
				tr.calls = nil
				args := append(append([]string{}, p...), "-h")
				o := runIsolated(func() error { return app.Run(append([]string{"app"}, args...)) })
				c.Count("evaluations", 1)
				c.Count("nontrivial", 1)
				c.Count("second_runs_on_same_instance", 1)
				cur := shape
				for _, nm := range p {
					cur = cur.kid(nm)
				}
				if !hasUsageOf(o.Stderr, cur) || len(tr.calls) != 0 || o.Panicked {
					c.Violation("C14", fmt.Sprintf("tree=%s policy=%d first Run %q --help, then on the same instance %q", shapeText(shape), pol, p[:len(p)-up], args),
						Case{"shape": 99, "kinds": assign, "policy": pol, "args": args}, "long help of "+cur.path()+" printed, nothing runs", fmt.Sprintf("calls=%v panicked=%v stderr=%q", tr.calls, o.Panicked, firstLines(o.Stderr, 3)))
				}
			}
		}
	}
	// a command declared after a first Run of the same instance is addressed by a later help request
	for pol := 0; pol < 3; pol++ {
		for _, first := range [][]string{{"c2"}, {"c1", "d2"}, {"--help"}, {"c1", "-h"}} {
			for _, h := range [][]string{{"late", "--help"}, {"lt", "-h"}, {"lt", "x", "-h"}} {
				app, tr := buildTree(shape, treeOpts{kinds: assign, rootPol: pol, hooks: true})
				runIsolated(func() error { return app.Run(append([]string{"app"}, first...)) })
				lateRan := 0
				app.Command("late lt", "declared after the first run", func(sub *cli.Cmd) {
					sub.StringArg("X", "", "")
					sub.Action = func() { lateRan++ }
				})
				tr.calls = nil
				o := runIsolated(func() error { return app.Run(append([]string{"app"}, h...)) })
				c.Count("evaluations", 1)
				c.Count("nontrivial", 1)
				c.Count("help_of_late_command", 1)
				okEnd := o.Returned && o.Err == nil && len(o.Exits) == 0
				if pol == 1 {
					okEnd = len(o.Exits) == 1 && o.Exits[0] == 0
				}
				if !strings.Contains(o.Stderr, "Usage: app late X") || len(tr.calls) != 0 || lateRan != 0 || o.Panicked || !okEnd {
					c.Violation("C14", fmt.Sprintf("tree=%s policy=%d first Run %q, then Command(\"late lt\") on the same instance and Run %q", shapeText(shape), pol, first, h),
						Case{"shape": 99, "kinds": assign, "policy": pol, "args": h}, "long help of `app late` (Usage: app late X), nothing runs, exit 0 / nil", fmt.Sprintf("calls=%v late=%d panicked=%v exits=%v err=%v stderr=%q", tr.calls, lateRan, o.Panicked, o.Exits, o.Err, firstLines(o.Stderr, 3)))
				}
			}
		}
	}
	c.Note("deep tree", shapeText(shape)+": declaration-free commands; help of every command (first run), and on a second run of the same instance after the help of its parent / grandparent")
}

func replayHelp(c *Ctx, cs Case) {
	if cInt(cs, "shape") == 99 {
		deepHelp(c) // small: re-run the whole deep-tree enumeration
		return
	}
	shape := treeShapes(true)[cInt(cs, "shape")]
	numberSlots(shape)
	var assign []int
	for _, x := range cs["kinds"].([]interface{}) {
		assign = append(assign, int(x.(float64)))
	}
	ver, _ := cs["version"].(bool)
	vd, _ := cs["version_declared"].(bool)
	sp := -1
	if f, ok := cs["sub_policy"].(float64); ok {
		sp = int(f)
	}
	helpCase3(c, cInt(cs, "shape"), shape, assign, cInt(cs, "policy"), sp, cStrs(cs, "args"), vd || ver, ver)
}

func isHelp(t string) bool { return t == "-h" || t == "--help" }

func helpCase(c *Ctx, si int, shape *tnode, assign []int, pol int, args []string, version bool) {
	helpCase2(c, si, shape, assign, pol, args, version, version)
}

// versionDeclared: the root declares Version("v version"); version: the invocation is expected to print it
func helpCase2(c *Ctx, si int, shape *tnode, assign []int, pol int, args []string, versionDeclared, version bool) {
	helpCase3(c, si, shape, assign, pol, -1, args, versionDeclared, version)
}

// subPol >= 0: every command below the root sets this policy in its initializer (the root keeps pol)
func helpCase3(c *Ctx, si int, shape *tnode, assign []int, pol, subPol int, args []string, versionDeclared, version bool) {
	c.Count("evaluations", 1)
	key := fmt.Sprintf("tree=%s specs=%s policy=%d args=%q", shapeText(shape), specsText(shape, assign), pol, args)
	if versionDeclared {
		key += " version-flag-declared"
	}
	var pols []int
	if subPol >= 0 {
		key += fmt.Sprintf(" sub-command-policy=%d", subPol)
		pols = make([]int, len(assign))
		for i := range pols {
			pols[i] = subPol
		}
		pols[0] = pol
	}
	cs := func() Case {
		return Case{"shape": si, "kinds": assign, "policy": pol, "sub_policy": subPol, "args": args, "version": version, "version_declared": versionDeclared}
	}
	app, tr := buildTree(shape, treeOpts{kinds: assign, pols: pols, rootPol: pol, hooks: true, version: versionDeclared})
	effective := pol
	o := runIsolated(func() error { return app.Run(append([]string{"app"}, args...)) })
	obs := fmt.Sprintf("calls=%v returned=%v err=%v panicked=%v panicval=%v exits=%v stderr=%q", tr.calls, o.Returned, o.Err, o.Panicked, safeSprint(o.PanicVal), o.Exits, firstLines(o.Stderr, 3))
	quiet := func(what string) bool { // nothing ran; exit 0 under ExitOnError, nil otherwise
		if len(tr.calls) != 0 || o.Panicked {
			return false
		}
		if effective == 1 {
			return len(o.Exits) == 1 && o.Exits[0] == 0 && !o.Returned
		}
		return o.Returned && o.Err == nil && len(o.Exits) == 0
	}
	if version {
		c.Count("nontrivial", 1)
		c.Count("version_cases", 1)
		if !hasLine(o.Stderr, treeVersionText) || !quiet("version") {
			c.Violation("C14", key, cs(), "the version string is printed, nothing runs, exit 0 under ExitOnError / nil otherwise", obs)
		}
		return
	}
	// position of the first help token, and whether a `--` precedes it
	hpos, dd := -1, -1
	for i, t := range args {
		if t == "--" && dd < 0 {
			dd = i
		}
		if isHelp(t) {
			hpos = i
			break
		}
	}
	if hpos < 0 {
		return
	}
	// the command addressed by the sub-command names preceding the help token
	cur, start := shape, 0
	for i := 0; i < hpos; i++ {
		if k := cur.kid(args[i]); k != nil {
			cur, start = k, i+1
		}
	}
	if subPol >= 0 && cur != shape {
		effective = subPol // the policy of the command whose help is requested
	}
	if dd >= 0 && dd < hpos {
		if dd < start {
			c.Count("not_claimed_ancestor_has_marker", 1)
			return
		}
		// `--` within the same command's own arguments: the token is ordinary data -> plain routing oracle
		c.Count("help_token_is_data", 1)
		r := route(shape, assign, args)
		if r.unclaimed {
			return
		}
		// descendants see their own help tokens; only judge when no later help token is visible to a deeper level
		for i := hpos + 1; i < len(args); i++ {
			if isHelp(args[i]) {
				return
			}
		}
		if r.target == nil {
			if len(tr.calls) != 0 || (pol == 0 && subPol < 0 && o.Err == nil) {
				c.Violation("C14", key, cs(), "help token after `--` is data: invocation rejected at "+r.rejectAt.path()+", nothing runs", obs)
			}
			return
		}
		c.Count("nontrivial", 1)
		ran := false
		for _, call := range tr.calls {
			if call == "A:"+r.target.path() {
				ran = true
			}
		}
		if !ran || !strings.Contains(tr.vals[cur](), args[hpos]) {
			c.Violation("C14", key, cs(), "help token after `--` is data: "+r.target.path()+" runs and "+cur.path()+" binds the token verbatim", obs+" values="+tr.vals[cur]())
		}
		return
	}
	c.Count("nontrivial", 1)
	c.Count(fmt.Sprintf("help_for_depth_%d", len(pathNodes(cur))-1), 1)
	bad := ""
	if !hasUsageOf(o.Stderr, cur) {
		bad = "missing usage line `" + usageLine(cur, assign) + "`"
	} else if !strings.Contains(o.Stderr, "LONG description of "+cur.path()) {
		bad = "missing the long description of " + cur.path()
	} else if strings.Contains(o.Stderr, "Error:") {
		bad = "arguments were validated (an Error: line is printed)"
	} else if !quiet("help") {
		bad = "something ran, or the end is not (exit 0 under ExitOnError / nil otherwise)"
	}
	if bad != "" {
		c.Violation("C14", key, cs(), "long help of "+cur.path()+" printed, no validation, nothing runs", bad+"; "+obs)
	} else if c.WantSample(fmt.Sprintf("help-depth%d", len(pathNodes(cur))-1)) && len(args) >= 3 {
		c.Sample(fmt.Sprintf("help-depth%d", len(pathNodes(cur))-1), Case{"tree": shapeText(shape), "specs": specsText(shape, assign), "policy": pol, "args": args, "help_of": cur.path(), "exits": o.Exits})
	}
}
