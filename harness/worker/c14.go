//go:build verif

package main

import (
	"fmt"
	"strings"
)

// C14: help and version requests short-circuit everything else.

func init() {
	register(&CheckDef{Name: "help", Props: []string{"C14"}, Run: runHelp, Replay: replayHelp})
}

var helpUniverse = [][]string{{}, {"x"}, {"-f", "x"}, {"-z"}, {"--", "x"}, {"--"}}

func runHelp(c *Ctx) {
	idx := 0
	kinds := []int{1, 3, 8, 9}
	for si, shape := range treeShapes(c.Thorough()) {
		slots := numberSlots(shape)
		ks := kinds
		if !c.Thorough() {
			ks = []int{3, 8, 9}
		}
		if len(slots) > 4 {
			ks = []int{3, 8, 9}
		}
		ntrees := 0
		kindAssignments(len(slots), ks, func(assign []int) {
			ntrees++
			idx++
			if !c.Mine(idx) {
				return
			}
			if !c.Begin("help", fmt.Sprint(si), fmt.Sprint(assign)) {
				return
			}
			as := append([]int{}, assign...)
			enumPaths(shape, func(target *tnode, names []string) {
				p := pathNodes(target)
				per := make([][][]string, len(p))
				for i, n := range p {
					per[i] = levelArgvs(n, helpUniverse)
				}
				enumInvocations(p, names, per, func(args []string, own [][]string) {
					for pol := 0; pol < 3; pol++ {
						for pos := 0; pos <= len(args); pos++ {
							for _, h := range []string{"-h", "--help"} {
								if h == "--help" && (pos+pol)%2 == 1 {
									continue // alternate the spelling instead of doubling the space
								}
								w := append(append(append([]string{}, args[:pos]...), h), args[pos:]...)
								c.Beat()
								helpCase(c, si, shape, as, pol, w, false)
							}
						}
						// version flag in first position (and, as a control, the plain invocation)
						for _, v := range []string{"-v", "--version"} {
							helpCase(c, si, shape, as, pol, append([]string{v}, args...), true)
						}
					}
				})
			})
		})
		if c.Shard == 0 {
			c.Note(fmt.Sprintf("shape %d", si), fmt.Sprintf("%s: %d spec assignments over specs %s; every target x every alias combination x per-level argvs %v x a help token (-h / --help alternating) inserted at every position x the three policies; plus a declared version flag (-v / --version) in first position", shapeText(shape), ntrees, kindSpecs(ks), helpUniverse))
		}
	}
}

func replayHelp(c *Ctx, cs Case) {
	shape := treeShapes(true)[cInt(cs, "shape")]
	numberSlots(shape)
	var assign []int
	for _, x := range cs["kinds"].([]interface{}) {
		assign = append(assign, int(x.(float64)))
	}
	ver, _ := cs["version"].(bool)
	helpCase(c, cInt(cs, "shape"), shape, assign, cInt(cs, "policy"), cStrs(cs, "args"), ver)
}

func isHelp(t string) bool { return t == "-h" || t == "--help" }

func helpCase(c *Ctx, si int, shape *tnode, assign []int, pol int, args []string, version bool) {
	c.Count("evaluations", 1)
	key := fmt.Sprintf("tree=%s specs=%s policy=%d args=%q", shapeText(shape), specsText(shape, assign), pol, args)
	if version {
		key += " version-flag-declared"
	}
	cs := func() Case {
		return Case{"shape": si, "kinds": assign, "policy": pol, "args": args, "version": version}
	}
	app, tr := buildTree(shape, treeOpts{kinds: assign, rootPol: pol, hooks: true, version: version})
	o := runIsolated(func() error { return app.Run(append([]string{"app"}, args...)) })
	obs := fmt.Sprintf("calls=%v returned=%v err=%v panicked=%v panicval=%v exits=%v stderr=%q", tr.calls, o.Returned, o.Err, o.Panicked, safeSprint(o.PanicVal), o.Exits, firstLines(o.Stderr, 3))
	quiet := func(what string) bool { // nothing ran; exit 0 under ExitOnError, nil otherwise
		if len(tr.calls) != 0 || o.Panicked {
			return false
		}
		if pol == 1 {
			return len(o.Exits) == 1 && o.Exits[0] == 0 && !o.Returned
		}
		return o.Returned && o.Err == nil && len(o.Exits) == 0
	}
	if version {
		c.Count("nontrivial", 1)
		c.Count("version_cases", 1)
		if !hasLine(o.Stderr, "9.9.9-verif") || !quiet("version") {
			c.Violation("C14", key, cs(), "the version string is printed, nothing runs, exit 0 under ExitOnError / nil otherwise", obs)
		}
		return
	}
	// position of the first help token, and whether a `--` precedes it
	hpos, dd := -1, -1
	for i, t := range args {
		if t == "--" && dd < 0 {
			dd = i
		}
		if isHelp(t) {
			hpos = i
			break
		}
	}
	if hpos < 0 {
		return
	}
	// the command addressed by the sub-command names preceding the help token
	cur, start := shape, 0
	for i := 0; i < hpos; i++ {
		if k := cur.kid(args[i]); k != nil {
			cur, start = k, i+1
		}
	}
	if dd >= 0 && dd < hpos {
		if dd < start {
			c.Count("not_claimed_ancestor_has_marker", 1)
			return
		}
		// `--` within the same command's own arguments: the token is ordinary data -> plain routing oracle
		c.Count("help_token_is_data", 1)
		r := route(shape, assign, args)
		if r.unclaimed {
			return
		}
		// descendants see their own help tokens; only judge when no later help token is visible to a deeper level
		for i := hpos + 1; i < len(args); i++ {
			if isHelp(args[i]) {
				return
			}
		}
		if r.target == nil {
			if len(tr.calls) != 0 || (pol == 0 && o.Err == nil) {
				c.Violation("C14", key, cs(), "help token after `--` is data: invocation rejected at "+r.rejectAt.path()+", nothing runs", obs)
			}
			return
		}
		c.Count("nontrivial", 1)
		ran := false
		for _, call := range tr.calls {
			if call == "A:"+r.target.path() {
				ran = true
			}
		}
		if !ran || !strings.Contains(tr.vals[cur](), args[hpos]) {
			c.Violation("C14", key, cs(), "help token after `--` is data: "+r.target.path()+" runs and "+cur.path()+" binds the token verbatim", obs+" values="+tr.vals[cur]())
		}
		return
	}
	c.Count("nontrivial", 1)
	c.Count(fmt.Sprintf("help_for_depth_%d", len(pathNodes(cur))-1), 1)
	bad := ""
	if !hasUsageOf(o.Stderr, cur) {
		bad = "missing usage line `" + usageLine(cur, assign) + "`"
	} else if !strings.Contains(o.Stderr, "LONG description of "+cur.path()) {
		bad = "missing the long description of " + cur.path()
	} else if strings.Contains(o.Stderr, "Error:") {
		bad = "arguments were validated (an Error: line is printed)"
	} else if !quiet("help") {
		bad = "something ran, or the end is not (exit 0 under ExitOnError / nil otherwise)"
	}
	if bad != "" {
		c.Violation("C14", key, cs(), "long help of "+cur.path()+" printed, no validation, nothing runs", bad+"; "+obs)
	} else if c.WantSample(fmt.Sprintf("help-depth%d", len(pathNodes(cur))-1)) && len(args) >= 3 {
		c.Sample(fmt.Sprintf("help-depth%d", len(pathNodes(cur))-1), Case{"tree": shapeText(shape), "specs": specsText(shape, assign), "policy": pol, "args": args, "help_of": cur.path(), "exits": o.Exits})
	}
}
