//go:build verif

package main

import (
	"bytes"
	"fmt"
	"os"
	"strings"

	"github.com/jawher/mow.cli/internal/zverif/vsched"
)

// ---- (b) interleavings under the controlled scheduler (instrumented library)

type scenario struct {
	ts   []int
	solo []string // per thread: outcome alone under the same instrumentation
	out  []string
}

func newScenario(ts []int) *scenario {
	sc := &scenario{ts: ts, out: make([]string, len(ts))}
	for _, t := range ts {
		one := &scenario{ts: []int{t}, out: make([]string, 1)}
		x := one.exec(nil)
		sc.solo = append(sc.solo, one.describe(x, 0))
	}
	return sc
}

func (sc *scenario) exec(prefix []int) *vsched.Exec {
	c20io.mu.Lock()
	c20io.buf.Reset()
	c20io.exits = map[int][]int{}
	c20io.perT = map[int]*bytes.Buffer{}
	c20io.mu.Unlock()
	bodies := make([]func(), len(sc.ts))
	for i := range sc.ts {
		i := i
		sc.out[i] = "exited"
		bodies[i] = func() { sc.out[i] = templates[sc.ts[i]].run() }
	}
	return vsched.Run(bodies, prefix)
}

func (sc *scenario) describe(x *vsched.Exec, i int) string {
	c20io.mu.Lock()
	defer c20io.mu.Unlock()
	own := ""
	if b := c20io.perT[i]; b != nil {
		own = b.String()
	}
	s := fmt.Sprintf("%s | exits=%v | wrote=%q", sc.out[i], c20io.exits[i], own)
	if p := x.ThreadPanic(i); p != nil {
		s += " | thread panicked: " + safeSprint(p)
	}
	return maskConv(s)
}

func (sc *scenario) names() string {
	var n []string
	for _, t := range sc.ts {
		n = append(n, strings.SplitN(templates[t].name, " ", 2)[0])
	}
	return strings.Join(n, "||")
}

func (sc *scenario) check(c *Ctx, x *vsched.Exec, prefix []int) {
	c.Count("evaluations", 1)
	c.Count("sched_executions", 1)
	pre := x.Preemptions(len(x.Choices))
	if pre > 0 {
		c.Count("nontrivial", 1)
	}
	c.Max("max_points_per_execution", int64(len(x.Points)))
	c.Count("sched_points", int64(len(x.Points)))
	c.Count("C20:states", int64(len(x.Points)))
	c.Count("C20:transitions", int64(len(x.Points)))
	c.Count("C20:traces", 1)
	if x.Diverged {
		c.Count("sched_divergences", 1)
		return
	}
	cs := func() Case { return Case{"mode": "sched", "threads": sc.ts, "prefix": prefix} }
	key := fmt.Sprintf("threads %s schedule %s", sc.names(), scheduleText(x, prefix))
	for i := range sc.ts {
		if got := sc.describe(x, i); got != sc.solo[i] {
			c.Violation("C20", key, cs(), fmt.Sprintf("thread %d (%s) ends as it does alone: %s", i, templates[sc.ts[i]].name, sc.solo[i]), got)
			return
		}
	}
	if conf := x.Conflicts(); len(conf) > 0 {
		c.Violation("C20", fmt.Sprintf("threads %s data race on package-level state", sc.names()), cs(), "no package-level variable of the library is written by one application's thread and touched by another's", strings.Join(conf, "; "))
	}
}

func scheduleText(x *vsched.Exec, prefix []int) string {
	var sw []string
	for i, ch := range x.Choices {
		if ch != 0 {
			sw = append(sw, fmt.Sprintf("point %d (site %d): switch to alternative %d", i, x.Points[i].Site, ch))
		}
	}
	if len(sw) == 0 {
		return "(no preemption)"
	}
	return strings.Join(sw, ", ")
}

// explore enumerates, depth-first, every schedule that extends prefix with at most `bound` preemptions in total.
func (sc *scenario) explore(c *Ctx, prefix []int, bound int, taggedOnly bool, depth int, idx *int) {
	c.Beat()
	x := sc.exec(prefix)
	if depth > 0 || c.Shard == 0 {
		sc.check(c, x, prefix)
	}
	pre := x.Preemptions(len(prefix))
	for i := len(prefix); i < len(x.Points); i++ {
		p := x.Points[i]
		if i > len(prefix) && x.Points[i-1].RunningEnabled && x.Choices[i-1] != 0 {
			pre++
		}
		if p.NEnabled < 2 {
			continue
		}
		if taggedOnly && p.RunningEnabled && !p.Tagged {
			continue
		}
		cost := pre
		if p.RunningEnabled {
			cost++
		}
		if cost > bound {
			continue
		}
		for alt := 1; alt < int(p.NEnabled); alt++ {
			if depth == 0 {
				*idx++
				if !c.Mine(*idx) {
					continue
				}
			}
			np := append(append([]int{}, x.Choices[:i]...), alt)
			sc.explore(c, np, bound, taggedOnly, depth+1, idx)
		}
	}
}

func runSched(c *Ctx) {
	os.Setenv("VQ_S", "fixed") // read by some templates at declaration time; constant during the exploration
	// replay determinism: the same schedule twice gives identical observations
	type scn struct {
		ts     []int
		dense  int
		tagged int
	}
	scns := []scn{{[]int{0, 1}, 1, 3}, {[]int{0, 0}, 1, 3}, {[]int{4, 5}, 1, 3}, {[]int{6, 7}, 1, 3}, {[]int{8, 1}, 1, 3}, {[]int{9, 10}, 1, 3}, {[]int{4, 4}, 1, 3}, {[]int{11, 11}, 1, 3}, {[]int{15, 16}, 1, 3}, {[]int{12, 13}, 1, 3}, {[]int{14, 14}, 1, 3}, {[]int{4, 17}, 1, 3}, {[]int{18, 19}, 1, 3}, {[]int{20, 5}, 1, 3}}
	if c.Thorough() {
		scns = []scn{{[]int{0, 1}, 2, 4}, {[]int{0, 0}, 2, 4}, {[]int{4, 5}, 2, 4}, {[]int{6, 7}, 2, 4}, {[]int{8, 1}, 2, 4}, {[]int{9, 10}, 2, 4}, {[]int{4, 4}, 2, 4}, {[]int{11, 11}, 2, 4}, {[]int{15, 16}, 2, 4}, {[]int{12, 13}, 2, 4}, {[]int{14, 14}, 2, 4}, {[]int{4, 17}, 2, 4}, {[]int{18, 19}, 2, 4}, {[]int{20, 5}, 2, 4}, {[]int{0, 1, 7}, 1, 3}, {[]int{4, 6, 5}, 1, 3}, {[]int{9, 0, 10}, 1, 3}}
	}
	idx := 0
	for _, s := range scns {
		sc := newScenario(s.ts)
		if !c.Begin("sched", sc.names()) {
			continue
		}
		a := sc.exec([]int{0, 1})
		da := []string{sc.describe(a, 0), sc.describe(a, 1), fmt.Sprint(len(a.Points))}
		b := sc.exec([]int{0, 1})
		db := []string{sc.describe(b, 0), sc.describe(b, 1), fmt.Sprint(len(b.Points))}
		if strings.Join(da, "|") != strings.Join(db, "|") {
			c.Count("sched_replay_nondeterministic", 1)
			c.Note("replay check "+sc.names(), "the same schedule replayed twice gave different observations: exploration of this scenario skipped")
			continue
		}
		sc.explore(c, nil, s.dense, false, 0, &idx)
		sc.explore(c, nil, s.tagged, true, 0, &idx)
		if c.Shard == 0 {
			tagged := 0
			for _, p := range a.Points {
				if p.Tagged {
					tagged++
				}
			}
			c.Note("scenario "+sc.names(), fmt.Sprintf("%d scheduling points per execution (%d at tagged package-level accesses); dense pass: every point, preemption bound %d; focused pass: tagged points only, preemption bound %d; solo outcomes: %q", len(a.Points), tagged, s.dense, s.tagged, sc.solo))
			c.Sample("schedule", Case{"threads": sc.names(), "points": len(a.Points), "example_schedule": "switch at point 1", "outcomes": da[:2]})
		}
	}
}
