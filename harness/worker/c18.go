//go:build verif

package main

import (
	"flag"
	"fmt"
	"regexp"
	"strings"

	cli "github.com/jawher/mow.cli"
)

// C18: invalid declarations fail fast; every listed name addresses the variable it was listed for.

func init() {
	register(&CheckDef{Name: "decl", Props: []string{"C18"}, Run: runDecl, Replay: replayDecl})
}

// "é" is one character but two bytes: a name longer than one byte is a long option (--é)
var c18OptNames = []string{"a", "b", "aa", "bb", "é"}
var c18ArgNames = []string{"X", "Y", "X1", "X_Y", "x", "Xy", "1X", "_X", "X-Y", "OPTIONS", "é", "", "X.", "[X]", "ARG_2_", "X|Y",
	// upper-case letters and digits outside ASCII are not part of the spec language's argument names
	"É", "XÉ", "Σ", "X٣"}
var argNameRE = regexp.MustCompile(`^[A-Z][A-Z0-9_]*$`)

func c18NameLists() []string {
	var out []string
	for _, a := range c18OptNames {
		out = append(out, a)
	}
	for _, a := range c18OptNames {
		for _, b := range c18OptNames {
			if a != b {
				out = append(out, a+" "+b)
			}
		}
	}
	return out
}

func seqsUpTo(alpha []string, n int, f func(seq []string)) {
	for l := 1; l <= n; l++ {
		strSeqs(alpha, l, func(p []string) { f(append([]string{}, p...)) })
	}
}

func runDecl(c *Ctx) {
	idx := 0
	lists := c18NameLists()
	n := 3
	if c.Thorough() {
		n = 4
	}
	seqsUpTo(lists, n, func(seq []string) {
		idx++
		if c.Mine(idx) && c.Begin("decl-opts", strings.Join(seq, ";")) {
			for rot := 0; rot < c18Kinds; rot++ {
				declOptsCase(c, seq, rot, false)
				declOptsCase(c, seq, rot, true)
			}
		}
	})
	seqsUpTo(c18ArgNames, n, func(seq []string) {
		idx++
		if c.Mine(idx) && c.Begin("decl-args", strings.Join(seq, ";")) {
			for rot := 0; rot < c18Kinds; rot++ {
				declArgsCase(c, seq, rot, false)
				declArgsCase(c, seq, rot, true)
			}
		}
	})
	c.Note("options", fmt.Sprintf("all sequences of <= %d option declarations whose name lists are the %d non-empty ordered lists of <= 2 distinct names from %q (declared with BoolOpt / StringOpt / IntOpt / StringsOpt / IntsOpt / Float64Opt / Floats64Opt / VarOpt in rotation, every one of the 8 rotation offsets, on the root command and inside the initialiser of a sub-command)", n, len(lists), c18OptNames))
	c.Note("arguments", fmt.Sprintf("all sequences of <= %d argument declarations with names from %q, declared with StringsArg / StringArg / IntArg / IntsArg / BoolArg / Float64Arg / Floats64Arg / VarArg in every rotation, on the root command and inside the initialiser of a sub-command", n, c18ArgNames))
}

func replayDecl(c *Ctx, cs Case) {
	if w := cStr(cs, "what"); strings.HasSuffix(w, "-ptr") {
		declPtrCase(c, cStrs(cs, "seq"), w == "args-ptr")
	} else if w == "opts" {
		declOptsCase(c, cStrs(cs, "seq"), cInt(cs, "rot"), cBool(cs, "sub"))
	} else {
		declArgsCase(c, cStrs(cs, "seq"), cInt(cs, "rot"), cBool(cs, "sub"))
	}
}

func dashed(n string) string {
	if len(n) == 1 {
		return "-" + n
	}
	return "--" + n
}

// the same sequence declared through the *Ptr forms, every declaration bound to the same variable:
// a taken name must still panic
func declPtrCase(c *Ctx, seq []string, args bool) {
	key := fmt.Sprintf("declarations %q through the Ptr forms into one shared variable", seq)
	taken := map[string]bool{}
	wantPanic := -1
	for i, d := range seq {
		names := strings.Fields(d)
		if args {
			names = []string{d}
			if !argNameRE.MatchString(d) || d == "OPTIONS" {
				wantPanic = i
				break
			}
		}
		for _, n := range names {
			if taken[n] && wantPanic < 0 {
				wantPanic = i
			}
		}
		if wantPanic >= 0 {
			break
		}
		for _, n := range names {
			taken[n] = true
		}
	}
	app := cli.App("app", "")
	var sharedS string
	var sharedL []int
	gotPanic := -1
	for i, d := range seq {
		func() {
			defer func() {
				if recover() != nil {
					gotPanic = i
				}
			}()
			switch {
			case args && i%2 == 0:
				app.StringArgPtr(&sharedS, d, "", "")
			case args:
				app.IntsPtr(&sharedL, cli.IntsArg{Name: d})
			case len(seq) == 2 || i%2 == 0:
				app.StringOptPtr(&sharedS, d, "", "")
			default:
				app.IntsPtr(&sharedL, cli.IntsOpt{Name: d})
			}
		}()
		if gotPanic >= 0 {
			break
		}
	}
	c.Count("ptr_form_sequences", 1)
	if gotPanic != wantPanic {
		what := "opts"
		if args {
			what = "args"
		}
		c.Violation("C18", key, Case{"what": what + "-ptr", "seq": seq}, fmt.Sprintf("panic at declaration %d", wantPanic), fmt.Sprintf("panic at declaration %d", gotPanic))
	}
}


// c18Kinds: the option kinds declarations rotate through; every sequence is declared once per rotation offset,
// on the root command and on a sub-command (each command has its own name table)
const c18Kinds = 8

type c18Var struct{ v string }

func (x *c18Var) Set(s string) error { x.v = s; return nil }
func (x *c18Var) String() string     { return x.v }

// declOptKind declares names on cmd as an option of the given kind and returns a reader telling whether it was set
// (every kind accepts the value "5"; kind 0 is a flag)
func declOptKind(cmd *cli.Cmd, kind int, names string) func() bool {
	switch kind % c18Kinds {
	case 0:
		p := cmd.BoolOpt(names, false, "")
		return func() bool { return *p }
	case 1:
		p := cmd.StringOpt(names, "", "")
		return func() bool { return *p != "" }
	case 2:
		p := cmd.IntOpt(names, 0, "")
		return func() bool { return *p != 0 }
	case 3:
		p := cmd.StringsOpt(names, nil, "")
		return func() bool { return len(*p) > 0 }
	case 4:
		p := cmd.IntsOpt(names, nil, "")
		return func() bool { return len(*p) > 0 }
	case 5:
		p := cmd.Float64Opt(names, 0, "")
		return func() bool { return *p != 0 }
	case 6:
		p := cmd.Floats64Opt(names, nil, "")
		return func() bool { return len(*p) > 0 }
	default:
		v := &c18Var{}
		cmd.VarOpt(names, v, "")
		return func() bool { return v.v != "" }
	}
}

func declOptsCase(c *Ctx, seq []string, rot int, sub bool) {
	if rot == 0 && !sub {
		declPtrCase(c, seq, false)
	}
	c.Count("evaluations", 1)
	where := "the root command"
	if sub {
		where = "a sub-command"
	}
	key := fmt.Sprintf("option declarations %q on %s, kinds rotated by %d", seq, where, rot)
	cs := func() Case { return Case{"what": "opts", "seq": seq, "rot": rot, "sub": sub} }
	// expectation: the first declaration one of whose names is already taken panics
	taken := map[string]int{}
	wantPanic := -1
	for i, d := range seq {
		for _, n := range strings.Fields(d) {
			if _, dup := taken[n]; dup && wantPanic < 0 {
				wantPanic = i
			}
		}
		if wantPanic >= 0 {
			break
		}
		for _, n := range strings.Fields(d) {
			taken[n] = i
		}
	}
	if wantPanic >= 0 {
		c.Count("nontrivial", 1)
	}
	// build declares seq on a fresh application (declarations are per application), each declaration under its own
	// recover; on a sub-command the declarations run inside its initialiser, i.e. during Run
	type built struct {
		app      *cli.Cli
		readers  []func() bool
		gotPanic int
		panicVal interface{}
		ran      int
		set      []int
		prefix   []string
	}
	build := func() *built {
		b := &built{app: cli.App("app", ""), readers: make([]func() bool, len(seq)), gotPanic: -1, prefix: []string{"app"}}
		b.app.ErrorHandling = flag.ContinueOnError
		decl := func(cmd *cli.Cmd) {
			for i, d := range seq {
				func() {
					defer func() {
						if r := recover(); r != nil {
							b.gotPanic, b.panicVal = i, r
						}
					}()
					b.readers[i] = declOptKind(cmd, i+rot, d)
				}()
				if b.gotPanic >= 0 {
					return
				}
			}
			cmd.Action = func() {
				b.ran++
				for i, r := range b.readers {
					if r() {
						b.set = append(b.set, i)
					}
				}
			}
		}
		if sub {
			b.app.Command("sub", "", decl)
			b.prefix = []string{"app", "sub"}
		} else {
			decl(b.app.Cmd)
		}
		return b
	}
	b := build()
	if sub {
		sharedBuf.Reset()
		runDirect(&sharedBuf, func() error { return b.app.Run(b.prefix) })
	}
	if b.gotPanic != wantPanic {
		exp := "no declaration panics"
		if wantPanic >= 0 {
			exp = fmt.Sprintf("declaration %d (%q) panics: a name is already taken", wantPanic, seq[wantPanic])
		}
		c.Violation("C18", key, cs(), exp, fmt.Sprintf("panic at declaration %d: %v", b.gotPanic, safeSprint(b.panicVal)))
		return
	}
	if wantPanic >= 0 {
		return
	}
	// every listed name sets the variable of the option it was listed for, and no other
	for name, owner := range taken {
		arg := dashed(name)
		argv := []string{arg + "=5"}
		if len(name) == 1 {
			argv = []string{arg, "5"}
		}
		if (owner+rot)%c18Kinds == 0 {
			argv = []string{arg}
		}
		b2 := build()
		sharedBuf.Reset()
		o := runDirect(&sharedBuf, func() error { return b2.app.Run(append(append([]string{}, b2.prefix...), argv...)) })
		c.Count("name_lookups", 1)
		if !(o.Returned && o.Err == nil && b2.gotPanic < 0 && b2.ran == 1 && len(b2.set) == 1 && b2.set[0] == owner) {
			c.Violation("C18", key+fmt.Sprintf(" argv=%q", argv), cs(), fmt.Sprintf("%s sets exactly the variable of declaration %d (%q)", arg, owner, seq[owner]),
				fmt.Sprintf("err=%v ran=%d variables set: %v panic=%v", o.Err, b2.ran, b2.set, safeSprint(o.PanicVal)))
			return
		}
	}
	if rot != 0 || sub {
		return
	}
	// the version flag is an option like any other: Version() with a taken name panics, with free names it does not
	for _, vn := range []string{"v version", seq[0], strings.Fields(seq[len(seq)-1])[len(strings.Fields(seq[len(seq)-1]))-1] + " vv"} {
		appV := cli.App("app", "")
		for _, d := range seq {
			appV.BoolOpt(d, false, "")
		}
		wantP := false
		for _, n := range strings.Fields(vn) {
			if _, dup := taken[n]; dup {
				wantP = true
			}
		}
		gotP := false
		func() {
			defer func() { gotP = recover() != nil }()
			appV.Version(vn, "1.0")
		}()
		c.Count("version_declarations", 1)
		if gotP != wantP {
			c.Violation("C18", key+fmt.Sprintf(" then Version(%q)", vn), cs(), fmt.Sprintf("panic=%v (a version flag shares the option name table)", wantP), fmt.Sprintf("panic=%v", gotP))
			return
		}
	}
	// declaring a taken name panics at any time, also after the application has been run
	{
		app3 := cli.App("app", "")
		app3.ErrorHandling = flag.ContinueOnError
		for _, d := range seq {
			app3.BoolOpt(d, false, "")
		}
		app3.Action = func() {}
		sharedBuf.Reset()
		runDirect(&sharedBuf, func() error { return app3.Run([]string{"app"}) })
		for _, d := range []string{seq[0], strings.Fields(seq[len(seq)-1])[0]} {
			panicked := false
			func() {
				defer func() { panicked = recover() != nil }()
				app3.StringOpt(d, "", "")
			}()
			c.Count("redeclarations_after_run", 1)
			if !panicked {
				c.Violation("C18", key+fmt.Sprintf(" then Run, then option %q", d), cs(), "declaring an option whose name is already taken panics (also after a Run)", "no panic")
				return
			}
		}
	}
	if len(seq) >= 2 && c.WantSample("options") {
		c.Sample("options", Case{"declarations": seq, "panics_at": wantPanic})
	}
}

// declArgKind declares an argument of the given kind and returns a reader of its value as text
func declArgKind(cmd *cli.Cmd, kind int, name string) func() string {
	switch kind % c18Kinds {
	case 0:
		l := cmd.StringsArg(name, nil, "")
		return func() string { return strings.Join(*l, ",") }
	case 1:
		p := cmd.StringArg(name, "", "")
		return func() string { return *p }
	case 2:
		p := cmd.IntArg(name, 0, "")
		return func() string { return fmt.Sprint(*p) }
	case 3:
		p := cmd.IntsArg(name, nil, "")
		return func() string { return strings.Trim(fmt.Sprint(*p), "[]") }
	case 4:
		p := cmd.BoolArg(name, false, "")
		return func() string { return fmt.Sprint(*p) }
	case 5:
		p := cmd.Float64Arg(name, 0, "")
		return func() string { return fmt.Sprint(*p) }
	case 6:
		p := cmd.Floats64Arg(name, nil, "")
		return func() string { return strings.Trim(fmt.Sprint(*p), "[]") }
	default:
		v := &c18Var{}
		cmd.VarArg(name, v, "")
		return func() string { return v.v }
	}
}

func declArgsCase(c *Ctx, seq []string, rot int, sub bool) {
	if rot == 0 && !sub {
		declPtrCase(c, seq, true)
	}
	c.Count("evaluations", 1)
	where := "the root command"
	if sub {
		where = "a sub-command"
	}
	key := fmt.Sprintf("argument declarations %q on %s, kinds rotated by %d", seq, where, rot)
	cs := func() Case { return Case{"what": "args", "seq": seq, "rot": rot, "sub": sub} }
	taken := map[string]bool{}
	wantPanic := -1
	for i, n := range seq {
		if !argNameRE.MatchString(n) || n == "OPTIONS" || taken[n] {
			wantPanic = i
			break
		}
		taken[n] = true
	}
	if wantPanic >= 0 {
		c.Count("nontrivial", 1)
	}
	app := cli.App("app", "")
	app.ErrorHandling = flag.ContinueOnError
	vars := make([]func() string, len(seq))
	gotPanic, panicVal := -1, interface{}(nil)
	ran := 0
	var got []string
	var target *cli.Cmd
	decl := func(cmd *cli.Cmd) {
		target = cmd
		for i, n := range seq {
			func() {
				defer func() {
					if r := recover(); r != nil {
						gotPanic, panicVal = i, r
					}
				}()
				vars[i] = declArgKind(cmd, i+rot, n)
			}()
			if gotPanic >= 0 {
				return
			}
		}
		cmd.Action = func() {
			ran++
			for _, v := range vars {
				got = append(got, v())
			}
		}
	}
	// every valid argument receives its own token ("true" for the bool kind, a small number otherwise)
	argv := []string{"app"}
	if sub {
		app.Command("sub", "", decl)
		argv = append(argv, "sub")
	} else {
		decl(app.Cmd)
	}
	var wantToks []string
	for i := range seq {
		t := fmt.Sprint(i + 1)
		if (i+rot)%c18Kinds == 4 {
			t = "true"
		}
		wantToks = append(wantToks, t)
	}
	sharedBuf.Reset()
	o := Outcome{}
	if sub || wantPanic < 0 {
		o = runDirect(&sharedBuf, func() error { return app.Run(append(argv, wantToks...)) })
	}
	if gotPanic != wantPanic {
		exp := "no declaration panics"
		if wantPanic >= 0 {
			exp = fmt.Sprintf("declaration %d (%q) panics: invalid or duplicate argument name", wantPanic, seq[wantPanic])
		}
		c.Violation("C18", key, cs(), exp, fmt.Sprintf("panic at declaration %d: %v", gotPanic, safeSprint(panicVal)))
		return
	}
	if wantPanic >= 0 {
		return
	}
	want := strings.Join(wantToks, " ")
	if !(o.Returned && o.Err == nil && ran == 1 && strings.Join(got, " ") == want) {
		c.Violation("C18", key+" (binding)", cs(), "each argument holds its own token: "+want, fmt.Sprintf("err=%v ran=%d got=%q panic=%v", o.Err, ran, got, safeSprint(o.PanicVal)))
	}
	panicked := false
	func() {
		defer func() { panicked = recover() != nil }()
		target.StringArg(seq[0], "", "")
	}()
	if !panicked {
		c.Violation("C18", key+fmt.Sprintf(" then Run, then argument %q", seq[0]), cs(), "declaring an argument whose name is already taken panics (also after a Run)", "no panic")
	}
	if rot == 0 && !sub && len(seq) >= 2 && c.WantSample("arguments") {
		c.Sample("arguments", Case{"declarations": seq, "panics_at": wantPanic})
	}
}
