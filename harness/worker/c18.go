//go:build verif

package main

import (
	"flag"
	"fmt"
	"regexp"
	"strings"

	cli "github.com/jawher/mow.cli"
)

// C18: invalid declarations fail fast; every listed name addresses the variable it was listed for.

func init() {
	register(&CheckDef{Name: "decl", Props: []string{"C18"}, Run: runDecl, Replay: replayDecl})
}

// "é" is one character but two bytes: a name longer than one byte is a long option (--é)
var c18OptNames = []string{"a", "b", "aa", "bb", "é"}
var c18ArgNames = []string{"X", "Y", "X1", "X_Y", "x", "Xy", "1X", "_X", "X-Y", "OPTIONS", "é", "", "X.", "[X]", "ARG_2_", "X|Y",
	// upper-case letters and digits outside ASCII are not part of the spec language's argument names
	"É", "XÉ", "Σ", "X٣"}
var argNameRE = regexp.MustCompile(`^[A-Z][A-Z0-9_]*$`)

func c18NameLists() []string {
	var out []string
	for _, a := range c18OptNames {
		out = append(out, a)
	}
	for _, a := range c18OptNames {
		for _, b := range c18OptNames {
			if a != b {
				out = append(out, a+" "+b)
			}
		}
	}
	return out
}

func seqsUpTo(alpha []string, n int, f func(seq []string)) {
	for l := 1; l <= n; l++ {
		strSeqs(alpha, l, func(p []string) { f(append([]string{}, p...)) })
	}
}

func runDecl(c *Ctx) {
	idx := 0
	lists := c18NameLists()
	n := 3
	if c.Thorough() {
		n = 4
	}
	seqsUpTo(lists, n, func(seq []string) {
		idx++
		if c.Mine(idx) && c.Begin("decl-opts", strings.Join(seq, ";")) {
			declOptsCase(c, seq)
		}
	})
	seqsUpTo(c18ArgNames, n, func(seq []string) {
		idx++
		if c.Mine(idx) && c.Begin("decl-args", strings.Join(seq, ";")) {
			declArgsCase(c, seq)
		}
	})
	c.Note("options", fmt.Sprintf("all sequences of <= %d option declarations whose name lists are the %d non-empty ordered lists of <= 2 distinct names from %q (declared with BoolOpt / StringOpt / IntOpt / StringsOpt in rotation)", n, len(lists), c18OptNames))
	c.Note("arguments", fmt.Sprintf("all sequences of <= %d argument declarations with names from %q", n, c18ArgNames))
}

func replayDecl(c *Ctx, cs Case) {
	if w := cStr(cs, "what"); strings.HasSuffix(w, "-ptr") {
		declPtrCase(c, cStrs(cs, "seq"), w == "args-ptr")
	} else if w == "opts" {
		declOptsCase(c, cStrs(cs, "seq"))
	} else {
		declArgsCase(c, cStrs(cs, "seq"))
	}
}

func dashed(n string) string {
	if len(n) == 1 {
		return "-" + n
	}
	return "--" + n
}

// the same sequence declared through the *Ptr forms, every declaration bound to the same variable:
// a taken name must still panic
func declPtrCase(c *Ctx, seq []string, args bool) {
	key := fmt.Sprintf("declarations %q through the Ptr forms into one shared variable", seq)
	taken := map[string]bool{}
	wantPanic := -1
	for i, d := range seq {
		names := strings.Fields(d)
		if args {
			names = []string{d}
			if !argNameRE.MatchString(d) || d == "OPTIONS" {
				wantPanic = i
				break
			}
		}
		for _, n := range names {
			if taken[n] && wantPanic < 0 {
				wantPanic = i
			}
		}
		if wantPanic >= 0 {
			break
		}
		for _, n := range names {
			taken[n] = true
		}
	}
	app := cli.App("app", "")
	var sharedS string
	var sharedL []int
	gotPanic := -1
	for i, d := range seq {
		func() {
			defer func() {
				if recover() != nil {
					gotPanic = i
				}
			}()
			switch {
			case args && i%2 == 0:
				app.StringArgPtr(&sharedS, d, "", "")
			case args:
				app.IntsPtr(&sharedL, cli.IntsArg{Name: d})
			case len(seq) == 2 || i%2 == 0:
				app.StringOptPtr(&sharedS, d, "", "")
			default:
				app.IntsPtr(&sharedL, cli.IntsOpt{Name: d})
			}
		}()
		if gotPanic >= 0 {
			break
		}
	}
	c.Count("ptr_form_sequences", 1)
	if gotPanic != wantPanic {
		what := "opts"
		if args {
			what = "args"
		}
		c.Violation("C18", key, Case{"what": what + "-ptr", "seq": seq}, fmt.Sprintf("panic at declaration %d", wantPanic), fmt.Sprintf("panic at declaration %d", gotPanic))
	}
}

func declOptsCase(c *Ctx, seq []string) {
	declPtrCase(c, seq, false)
	c.Count("evaluations", 1)
	key := fmt.Sprintf("option declarations %q", seq)
	cs := func() Case { return Case{"what": "opts", "seq": seq} }
	// expectation: the first declaration one of whose names is already taken panics
	taken := map[string]int{}
	wantPanic := -1
	for i, d := range seq {
		for _, n := range strings.Fields(d) {
			if _, dup := taken[n]; dup && wantPanic < 0 {
				wantPanic = i
			}
		}
		if wantPanic >= 0 {
			break
		}
		for _, n := range strings.Fields(d) {
			taken[n] = i
		}
	}
	if wantPanic >= 0 {
		c.Count("nontrivial", 1)
	}
	app := cli.App("app", "")
	app.ErrorHandling = flag.ContinueOnError
	readers := make([]func() bool, len(seq))
	gotPanic, panicVal := -1, interface{}(nil)
	for i, d := range seq {
		func() {
			defer func() {
				if r := recover(); r != nil {
					gotPanic, panicVal = i, r
				}
			}()
			switch i % 4 {
			case 0:
				p := app.BoolOpt(d, false, "")
				readers[i] = func() bool { return *p }
			case 1:
				p := app.StringOpt(d, "", "")
				readers[i] = func() bool { return *p != "" }
			case 2:
				p := app.IntOpt(d, 0, "")
				readers[i] = func() bool { return *p != 0 }
			case 3:
				p := app.StringsOpt(d, nil, "")
				readers[i] = func() bool { return len(*p) > 0 }
			}
		}()
		if gotPanic >= 0 {
			break
		}
	}
	if gotPanic != wantPanic {
		exp := "no declaration panics"
		if wantPanic >= 0 {
			exp = fmt.Sprintf("declaration %d (%q) panics: a name is already taken", wantPanic, seq[wantPanic])
		}
		c.Violation("C18", key, cs(), exp, fmt.Sprintf("panic at declaration %d: %v", gotPanic, safeSprint(panicVal)))
		return
	}
	if wantPanic >= 0 {
		return
	}
	// every listed name sets the variable of the option it was listed for, and no other
	for name, owner := range taken {
		for i := range seq {
			_ = i
		}
		arg := dashed(name)
		val := "5"
		if owner%4 == 0 {
			arg, val = dashed(name), ""
		}
		argv := []string{"app", arg}
		if val != "" {
			argv = []string{"app", arg + "=" + val}
			if len(name) == 1 {
				argv = []string{"app", arg, val}
			}
		}
		// fresh application per run (declarations are per application)
		app2 := cli.App("app", "")
		app2.ErrorHandling = flag.ContinueOnError
		rd := make([]func() bool, len(seq))
		for i, d := range seq {
			switch i % 4 {
			case 0:
				p := app2.BoolOpt(d, false, "")
				rd[i] = func() bool { return *p }
			case 1:
				p := app2.StringOpt(d, "", "")
				rd[i] = func() bool { return *p != "" }
			case 2:
				p := app2.IntOpt(d, 0, "")
				rd[i] = func() bool { return *p != 0 }
			case 3:
				p := app2.StringsOpt(d, nil, "")
				rd[i] = func() bool { return len(*p) > 0 }
			}
		}
		ran := 0
		var set []int
		app2.Action = func() {
			ran++
			for i, r := range rd {
				if r() {
					set = append(set, i)
				}
			}
		}
		sharedBuf.Reset()
		o := runDirect(&sharedBuf, func() error { return app2.Run(argv) })
		c.Count("name_lookups", 1)
		if !(o.Returned && o.Err == nil && ran == 1 && len(set) == 1 && set[0] == owner) {
			c.Violation("C18", key+fmt.Sprintf(" argv=%q", argv[1:]), cs(), fmt.Sprintf("%s sets exactly the variable of declaration %d (%q)", arg, owner, seq[owner]),
				fmt.Sprintf("err=%v ran=%d variables set: %v panic=%v", o.Err, ran, set, safeSprint(o.PanicVal)))
			return
		}
	}
	// the version flag is an option like any other: Version() with a taken name panics, with free names it does not
	for _, vn := range []string{"v version", seq[0], strings.Fields(seq[len(seq)-1])[len(strings.Fields(seq[len(seq)-1]))-1] + " vv"} {
		appV := cli.App("app", "")
		for _, d := range seq {
			appV.BoolOpt(d, false, "")
		}
		wantP := false
		for _, n := range strings.Fields(vn) {
			if _, dup := taken[n]; dup {
				wantP = true
			}
		}
		gotP := false
		func() {
			defer func() { gotP = recover() != nil }()
			appV.Version(vn, "1.0")
		}()
		c.Count("version_declarations", 1)
		if gotP != wantP {
			c.Violation("C18", key+fmt.Sprintf(" then Version(%q)", vn), cs(), fmt.Sprintf("panic=%v (a version flag shares the option name table)", wantP), fmt.Sprintf("panic=%v", gotP))
			return
		}
	}
	// declaring a taken name panics at any time, also after the application has been run
	{
		app3 := cli.App("app", "")
		app3.ErrorHandling = flag.ContinueOnError
		for _, d := range seq {
			app3.BoolOpt(d, false, "")
		}
		app3.Action = func() {}
		sharedBuf.Reset()
		runDirect(&sharedBuf, func() error { return app3.Run([]string{"app"}) })
		for _, d := range []string{seq[0], strings.Fields(seq[len(seq)-1])[0]} {
			panicked := false
			func() {
				defer func() { panicked = recover() != nil }()
				app3.StringOpt(d, "", "")
			}()
			c.Count("redeclarations_after_run", 1)
			if !panicked {
				c.Violation("C18", key+fmt.Sprintf(" then Run, then option %q", d), cs(), "declaring an option whose name is already taken panics (also after a Run)", "no panic")
				return
			}
		}
	}
	if len(seq) >= 2 && c.WantSample("options") {
		c.Sample("options", Case{"declarations": seq, "panics_at": wantPanic})
	}
}

func declArgsCase(c *Ctx, seq []string) {
	declPtrCase(c, seq, true)
	c.Count("evaluations", 1)
	key := fmt.Sprintf("argument declarations %q", seq)
	cs := func() Case { return Case{"what": "args", "seq": seq} }
	taken := map[string]bool{}
	wantPanic := -1
	for i, n := range seq {
		if !argNameRE.MatchString(n) || n == "OPTIONS" || taken[n] {
			wantPanic = i
			break
		}
		taken[n] = true
	}
	if wantPanic >= 0 {
		c.Count("nontrivial", 1)
	}
	app := cli.App("app", "")
	app.ErrorHandling = flag.ContinueOnError
	vars := make([]func() string, len(seq))
	gotPanic, panicVal := -1, interface{}(nil)
	for i, n := range seq {
		func() {
			defer func() {
				if r := recover(); r != nil {
					gotPanic, panicVal = i, r
				}
			}()
			if i%2 == 0 {
				l := app.StringsArg(n, nil, "")
				vars[i] = func() string { return strings.Join(*l, ",") }
			} else {
				s := app.StringArg(n, "", "")
				vars[i] = func() string { return *s }
			}
		}()
		if gotPanic >= 0 {
			break
		}
	}
	if gotPanic != wantPanic {
		exp := "no declaration panics"
		if wantPanic >= 0 {
			exp = fmt.Sprintf("declaration %d (%q) panics: invalid or duplicate argument name", wantPanic, seq[wantPanic])
		}
		c.Violation("C18", key, cs(), exp, fmt.Sprintf("panic at declaration %d: %v", gotPanic, safeSprint(panicVal)))
		return
	}
	if wantPanic >= 0 {
		return
	}
	// all valid: each argument receives its own token
	argv := []string{"app"}
	for i := range seq {
		argv = append(argv, fmt.Sprintf("tok%d", i))
	}
	ran := 0
	var got []string
	app.Action = func() {
		ran++
		for _, v := range vars {
			got = append(got, v())
		}
	}
	sharedBuf.Reset()
	o := runDirect(&sharedBuf, func() error { return app.Run(argv) })
	want := strings.Join(argv[1:], " ")
	if !(o.Returned && o.Err == nil && ran == 1 && strings.Join(got, " ") == want) {
		c.Violation("C18", key+" (binding)", cs(), "each argument holds its own token: "+want, fmt.Sprintf("err=%v ran=%d got=%q panic=%v", o.Err, ran, got, safeSprint(o.PanicVal)))
	}
	panicked := false
	func() {
		defer func() { panicked = recover() != nil }()
		app.StringArg(seq[0], "", "")
	}()
	if !panicked {
		c.Violation("C18", key+fmt.Sprintf(" then Run, then argument %q", seq[0]), cs(), "declaring an argument whose name is already taken panics (also after a Run)", "no panic")
	}
	if len(seq) >= 2 && c.WantSample("arguments") {
		c.Sample("arguments", Case{"declarations": seq, "panics_at": wantPanic})
	}
}
