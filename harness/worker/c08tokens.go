//go:build verif && verifstruct

package main

import (
	"fmt"

	"github.com/jawher/mow.cli/internal/lexer"
)

// tokenPartition: every non-blank byte of an accepted spec belongs to exactly one token of the library's own
// tokenizer, reported with its text and position. Depends on the internal lexer API (build tag verifstruct).
func tokenPartition(c *Ctx, spec string, ds *declSet, key string, cs func() Case, refTokens int) {
	toks, err := lexer.Tokenize(spec)
	if err != nil {
		c.Violation("C08", key+" (tokens)", cs(), "Tokenize succeeds on a spec that compiles", err.Error())
		return
	}
	pos := 0
	bad := ""
	for _, t := range toks {
		text := t.Val
		if t.Typ == lexer.TTOptSeq {
			text = "-" + t.Val
		}
		for pos < t.Pos && pos < len(spec) {
			if spec[pos] != ' ' && spec[pos] != '\t' {
				bad = fmt.Sprintf("byte %d (%q) belongs to no token", pos, spec[pos])
			}
			pos++
		}
		if t.Pos < pos {
			bad = fmt.Sprintf("token %v overlaps the previous one", t)
		}
		if t.Pos+len(text) > len(spec) || spec[t.Pos:t.Pos+len(text)] != text {
			bad = fmt.Sprintf("token %v does not report the source text at its position", t)
		}
		pos = t.Pos + len(text)
		if bad != "" {
			break
		}
	}
	for bad == "" && pos < len(spec) {
		if spec[pos] != ' ' && spec[pos] != '\t' {
			bad = fmt.Sprintf("byte %d (%q) belongs to no token", pos, spec[pos])
		}
		pos++
	}
	if bad == "" && len(toks) != refTokens {
		bad = fmt.Sprintf("%d tokens reported, the reference reads %d", len(toks), refTokens)
	}
	if bad != "" {
		c.Violation("C08", key+" (tokens)", cs(), "every non-blank byte belongs to exactly one token reported with its text and position", bad)
	}
	if c.WantSample("accepted") && len(toks) >= 3 {
		c.Sample("accepted", Case{"spec": spec, "decl": ds.name, "tokens": fmt.Sprint(toks)})
	}
}
