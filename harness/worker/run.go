//go:build verif

package main

import (
	"bytes"
	"runtime"

	cli "github.com/jawher/mow.cli"
)

// Outcome of one call of Cli.Run observed from outside.
type Outcome struct {
	Returned bool        // Run returned to its caller
	Err      error       // its result
	Panicked bool        // Run panicked
	PanicVal interface{} // with this value
	Exits    []int       // arguments of every call of the process-exit function
	Stderr   string
}

type exitSentinel struct{}

// runIsolated calls f in its own goroutine. The exit stub records the code and
// ends the goroutine (runtime.Goexit), which is the closest in-process model of
// os.Exit: nothing of the library runs afterwards except deferred calls, and
// recover() returns nil during Goexit so no deferred recover of the library
// can observe it.
func runIsolated(f func() error) *Outcome {
	o := &Outcome{}
	var buf bytes.Buffer
	cli.VerifSetIO(&buf, &buf, func(code int) {
		o.Exits = append(o.Exits, code)
		runtime.Goexit()
	})
	done := make(chan struct{})
	go func() {
		defer close(done)
		defer func() {
			if o.Returned {
				return
			}
			if r := recover(); r != nil {
				o.Panicked = true
				o.PanicVal = r
			}
		}()
		o.Err = f()
		o.Returned = true
	}()
	<-done
	o.Stderr = buf.String()
	return o
}

// runDirect calls f on the calling goroutine (fast path for checks in which the
// exit function must never be called): an exit is turned into a panic carrying
// a sentinel and recorded.
func runDirect(buf *bytes.Buffer, f func() error) (o Outcome) {
	cli.VerifSetIO(buf, buf, func(code int) {
		o.Exits = append(o.Exits, code)
		panic(exitSentinel{})
	})
	defer func() {
		if o.Returned {
			return
		}
		if r := recover(); r != nil {
			if _, ok := r.(exitSentinel); ok {
				return
			}
			o.Panicked = true
			o.PanicVal = r
		}
	}()
	o.Err = f()
	o.Returned = true
	return
}
