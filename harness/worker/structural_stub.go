//go:build verif && !verifstruct

package main

import "github.com/jawher/mow.cli/internal/zverif/ref"

// Fallback build: the structural layer of C01 reads the compiled automaton through the library's internal
// fsm / matcher packages; when those no longer have the shape the harness was written against, the layer is
// left out and C01 is decided by the concrete layer alone (the evidence then carries no states / transitions).
func structuralPhase(c *Ctx, d *ref.Decl, idx *int) {
	c.Note("structural layer", "DISABLED: the worker was built without access to the library's internal automaton API")
}

func structuralOne(c *Ctx, d *ref.Decl, spec string) {}
