#!/usr/bin/env python3
"""tools/intake.py <PROP> <k> [extra checks...]
Independently confirms a change produced by a seeding sub-agent (in /tmp/seed-<PROP>/OUT/change<k>.diff + demo<k>_test.go)
in a fresh scratch worktree of /repo: the patch applies, the repository's own suite passes with it, the demonstration
fails with it and passes without it. Only then it is stored as /verif/seeded/<PROP>-<k>/ {patch.diff, demo_test.go, meta.json, checks}.
The scratch worktree is removed afterwards."""
import sys, os, subprocess, json, shutil, tempfile, re
prop, k = sys.argv[1], sys.argv[2]
extra = sys.argv[3:]
rnd = os.environ.get("ROUND", "1")
src = f"/tmp/seed-{prop}/OUT" if rnd == "1" else f"/tmp/seed{rnd}-{prop}/OUT"
patch = f"{src}/change{k}.diff"
demo = f"{src}/demo{k}_test.go"
env = dict(os.environ, GOFLAGS="-mod=mod", GOPROXY="off", GOSUMDB="off", GOTOOLCHAIN="local")
def run(cmd, cwd):
    r = subprocess.run(cmd, cwd=cwd, env=env, shell=True, capture_output=True, text=True)
    return r.returncode, (r.stdout + r.stderr)
wt = tempfile.mkdtemp(prefix="vp-intake-")
os.rmdir(wt)
rc, out = run(f"git -C /repo worktree add -q --detach {wt} HEAD", "/")
assert rc == 0, out
ran = []
try:
    testname = None
    m = re.findall(r"^func (Test\w+)", open(demo).read(), re.M)
    assert m, "demo has no test"
    pat = "^(" + "|".join(m) + ")$"
    shutil.copy(demo, f"{wt}/zz_seed_demo_test.go")
    rc, out = run(f"go test -vet=off -count=1 -run '{pat}' .", wt); ran.append(("demo on the unchanged tree", rc))
    if rc != 0: print("REJECT: demo fails on the unchanged tree\n", out[-2000:]); sys.exit(1)
    os.remove(f"{wt}/zz_seed_demo_test.go")
    rc, out = run(f"git apply --whitespace=nowarn {patch}", wt)
    if rc != 0: print("REJECT: patch does not apply\n", out); sys.exit(1)
    rc, out = run("go build ./... && go test -vet=off -count=1 ./...", wt); ran.append(("existing suite with the change", rc))
    if rc != 0: print("REJECT: existing suite fails with the change\n", out[-2000:]); sys.exit(1)
    shutil.copy(demo, f"{wt}/zz_seed_demo_test.go")
    rc, out = run(f"go test -vet=off -count=1 -run '{pat}' .", wt); ran.append(("demo with the change", rc))
    if rc == 0: print("REJECT: demo passes with the change"); sys.exit(1)
    fail_excerpt = "\n".join([l for l in out.splitlines() if "FAIL" in l or "Error" in l or "expected" in l][:8])
    dst = f"/verif/seeded/{prop}-{k}" if rnd == "1" else f"/verif/seeded/{prop}-r{rnd}-{k}"
    os.makedirs(dst, exist_ok=True)
    shutil.copy(patch, f"{dst}/patch.diff"); shutil.copy(demo, f"{dst}/demo_test.go")
    notes = open(f"{src}/notes.md").read() if os.path.exists(f"{src}/notes.md") else ""
    open(f"{dst}/checks", "w").write(" ".join([prop] + extra) + "\n")
    json.dump({"property": prop, "origin": "independent sub-agent given only the property text and a scratch worktree",
               "confirmed_by": "tools/intake.py in a fresh scratch worktree of /repo HEAD",
               "ran": [{"step": s, "exit": c} for s, c in ran],
               "demo_failure_excerpt": fail_excerpt, "agent_notes": notes}, open(f"{dst}/meta.json", "w"), indent=1)
    print("ACCEPTED ->", dst)
finally:
    run(f"git -C /repo worktree remove --force {wt}", "/")
    shutil.rmtree(wt, ignore_errors=True)
