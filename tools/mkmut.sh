#!/bin/sh
# tools/mkmut.sh begin            -> fresh scratch copy of /repo at /tmp/mutwork (edit files there)
# tools/mkmut.sh save <name> "<checks>" "<description>"  -> writes /verif/mutants/<name>.patch from the edits, removes the copy
case "$1" in
 begin) rm -rf /tmp/mutwork; rsync -a --exclude .git /repo/ /tmp/mutwork/; echo "edit under /tmp/mutwork";;
 save) name=$2; checks=$3; desc=$4
   { echo "# property: $desc"; echo "# checks: $checks"; (cd /tmp && diff -ruN -x .git /repo mutwork | sed -e 's#^--- /repo/\([^	]*\).*#--- a/\1#' -e 's#^+++ mutwork/\([^	]*\).*#+++ b/\1#' -e '/^diff -ruN/d' ) ; } > /verif/mutants/$name.patch
   rm -rf /tmp/mutwork; grep -c '^[+-][^+-]' /verif/mutants/$name.patch;;
esac
