#!/usr/bin/env python3
"""Writes /verif/BOUNDS.md: what the committed evidence files say each quick check covered (generated)."""
import json, glob
out = ["# Bounds actually explored (generated from evidence/*.json by tools/gen_bounds_md.py)\n",
       "Tier shown: the tier of the committed evidence file (quick unless stated). Thorough tiers widen these bounds; see `harness/worker/*.go`.\n"]
for f in sorted(glob.glob('/verif/evidence/C*.json')):
    e = json.load(open(f)); c = e['coverage']
    out.append(f"\n## {e['property_id']} — {e['level']} — tier {e['tier']} — {e['wall_s']:.0f}s\n")
    out.append(f"* evaluations {c['evaluations']:,}; distinct non-trivial {c['distinct_nontrivial']:,}; exhaustive {c.get('exhaustive')}; violations {e.get('violations')}; known findings seen {c.get('known_findings_seen')}")
    if 'states' in c:
        out.append(f"* states {c['states']:,}; transitions {c['transitions']:,}; traces validated against the implementation {c['traces_validated_against_impl']:,}")
    for k, v in sorted((c.get('bounds') or {}).items()):
        out.append(f"* {k}: {v}")
    extra = {k: v for k, v in (c.get('counters') or {}).items() if k not in ('evaluations', 'nontrivial')}
    if extra:
        out.append("* counters: " + ", ".join(f"{k}={v:,}" for k, v in sorted(extra.items())))
open('/verif/BOUNDS.md', 'w').write("\n".join(out) + "\n")
print("BOUNDS.md written")
