#!/usr/bin/env python3
"""tools/assemble_results.py <log> [<log> ...]
Builds mutants/RESULTS.md from the console logs of one or more `./check mutants [names...]` runs (later logs
override earlier ones for the same change). Used when the complete set is run in several batches; a single
`./check mutants` without arguments writes the same table by itself. Changes that no longer exist under
seeded/ or mutants/ are dropped; changes without a row are listed as not run."""
import sys, os, re, glob
root = os.path.dirname(os.path.dirname(os.path.abspath(__file__)))
rows = {}
for log in sys.argv[1:]:
    for l in open(log, errors="replace"):
        m = re.match(r"^(\S+)\s+(CAUGHT|MISSED|INVALID|ERROR)\s+(.*)$", l.rstrip("\n"))
        if m:
            rows[m.group(1)] = (m.group(2), m.group(3), os.path.basename(log))
names = []
for f in sorted(glob.glob(os.path.join(root, "mutants", "*.patch"))):
    names.append((os.path.basename(f)[:-6], f))
for d in sorted(glob.glob(os.path.join(root, "seeded", "*"))):
    names.append(("seeded/" + os.path.basename(d), os.path.join(d, "patch.diff")))
out = ["# Mutant / seeded-change results (quick tier)", "",
       "Assembled by `tools/assemble_results.py` from the console output of several `./check mutants <names>` batches "
       "(the complete set takes hours; a single `./check mutants` without arguments writes the same table in one go); "
       "every patch passes the repository's own test suite.", "",
       "| change | checks run | result | detail |", "|---|---|---|---|"]
missing = 0
def checks_of(name, path):
    if name.startswith("seeded/"):
        cf = os.path.join(os.path.dirname(path), "checks")
        return open(cf).read().split() if os.path.exists(cf) else []
    for l in open(path, errors="replace"):
        if l.startswith("# checks:"):
            return l[len("# checks:"):].split()
    return []
for name, path in sorted(names):
    if name in rows:
        res, detail, _ = rows[name]
        out.append("| %s | %s | %s | %s |" % (name, " ".join(checks_of(name, path)), res, detail.replace("|", "\\|")))
    else:
        missing += 1
        out.append("| %s | %s | not run in these batches | |" % (name, " ".join(checks_of(name, path))))
open(os.path.join(root, "mutants", "RESULTS.md"), "w").write("\n".join(out) + "\n")
print("rows:", len(names), "without a result:", missing, "not caught:", sum(1 for n, _ in names if n in rows and rows[n][0] != "CAUGHT"))
