#!/bin/sh
# tools/allquick.sh [repo-dir]  — run every quick check (against another copy of the library when given);
# prints one line per check and a summary of the checks that did not exit 0.
cd "$(dirname "$0")/.." || exit 2
[ -n "$1" ] && export VERIF_REPO="$1"
bad=""
for p in C01 C02 C03 C04 C05 C06 C07 C08 C09 C10 C11 C12 C13 C14 C15 C16 C17 C18 C19 C20; do
  out=$(./check $p quick 2>&1); code=$?
  echo "$out" | grep -v '^KNOWN-FINDING' | tail -1 | cut -c1-160
  if [ $code -ne 0 ]; then bad="$bad $p(exit $code)"; echo "$out" | grep -A3 '^VIOLATION\|CHECK-ERROR\|NOTE' | head -12 | cut -c1-300; fi
  echo "$out" | grep -q '^NOTE' && echo "   (reduced build)"
done
echo "NOT-ZERO:$bad"
