#!/usr/bin/env python3
"""tools/mkmut.py NAME 'CHECKS' 'DESCRIPTION' FILE OLD NEW [FILE OLD NEW ...]
Writes /verif/mutants/NAME.patch: replaces OLD by NEW (exactly one occurrence) in /repo/FILE (the repo is not touched)."""
import sys, difflib
name, checks, desc = sys.argv[1:4]
rest = sys.argv[4:]
out = [f"# property: {desc}\n", f"# checks: {checks}\n"]
for i in range(0, len(rest), 3):
    f, old, new = rest[i:i+3]
    s = open('/repo/' + f).read()
    assert s.count(old) == 1, (f, s.count(old))
    t = s.replace(old, new)
    out += list(difflib.unified_diff(s.splitlines(True), t.splitlines(True), 'a/' + f, 'b/' + f))
open(f'/verif/mutants/{name}.patch', 'w').write(''.join(out))
print(name, 'written')
